(* C14 "Hosts.Match accepts a request iff its Host, lower-cased and stripped of a valid ':port' and
   of IPv6 brackets, resolves under the route-resolution rules of C02 against the domain patterns
   currently registered, and it reports exactly that pattern's parameters.  Add and Delete treat
   domain names case-insensitively; Delete removes exactly the named domain and leaves every other
   domain matching as before."

   The Hosts matcher (Model/Match.v) is the router's radix tree with a fixed method (GET), a fixed
   handler and lower-cased patterns.  This file transfers the tree theorems of C01 / C02 / C03:
   - Part 1: the BRIDGE.  A hosts history whose interceptor registrations all come before the first
     Add / Delete ([regs_first]) is a tree history: [hosts_bridge].  A registration made AFTER an Add
     is outside: the earlier domain keeps the meaning its rule had when it was added
     ([hosts_bridge_refuted]).
   - Part 2: what Hosts.Match is on such a tree ([hosts_answer]: the answering domain).
   - Part 3: the domains currently registered ([hosts_domains], the oracle's table).
   - Part 4: refinement to the documented resolver (add-only histories, canonical spellings).
   - Part 5: Delete: frame and gone.
   - Part 6: soundness (the accepted host is an instance of the answering domain).
   - Part 7: live domains are served.
   Theorems are re-exported by Props/C14resolve.v. *)
From Coq Require Import String Permutation.
From Mux Require Import Model.Bytes Model.Regex Model.Context Model.Syntax Model.Tree Model.Match
  Spec.Table Spec.Resolve
  Proofs.BytesFacts Proofs.MatchSound Proofs.TreeSafe Proofs.TreeOrder Proofs.MatchOrder Proofs.TreeAllow
  Proofs.TreeText Proofs.TreeFind Proofs.TokensSplit Proofs.TreeNames Proofs.TreeLit Proofs.TreeGone
  Proofs.TreeFrame Proofs.TreeWitness Proofs.TreeAbs Proofs.TreeResolve Proofs.TreeResolve2
  Proofs.HostsTree.

Local Open Scope nat_scope.

(* ================================================================ Part 1 : the bridge *)

(* the tree operation a Hosts call is: the domain is lower-cased, the handler is the constant
   HUser "", no middleware, the method list is [GET]; Delete removes every method *)
Definition hop_top (op : hop) : list top :=
  match op with
  | HAdd d => [OAdd (to_lower d) (HUser []) [] [GET]]
  | HDel d => [ORemove (to_lower d) []]
  | HReg _ _ => []
  end.
Definition hist_ops (hist : list hop) : list top := flat_map hop_top hist.

(* the interceptor table the registrations build *)
Definition reg_ic (ic : icpts) (op : hop) : icpts :=
  match op with HReg rule f => (rule, f) :: adelete rule ic | _ => ic end.
Definition hist_ic (hist : list hop) : icpts := fold_left reg_ic hist [].

Definition is_reg (op : hop) : bool := match op with HReg _ _ => true | _ => false end.
Definition no_reg (hist : list hop) : bool := forallb (fun op => negb (is_reg op)) hist.

(* every RegisterInterceptor comes before the first Add / Delete *)
Fixpoint regs_first (hist : list hop) : bool :=
  match hist with
  | [] => true
  | HReg _ _ :: h => regs_first h
  | _ :: _ => no_reg hist
  end.

Definition no_del (hist : list hop) : bool :=
  forallb (fun op => match op with HDel _ => false | _ => true end) hist.

Lemma hstep_add : forall t d, hstep t (HAdd d) = tstep t (OAdd (to_lower d) (HUser []) [] [GET]).
Proof. reflexivity. Qed.
Lemma hstep_del : forall t d, hstep t (HDel d) = tstep t (ORemove (to_lower d) []).
Proof. reflexivity. Qed.
Lemma hstep_reg_new : forall name ic trace rule f,
  hstep (new_tree name ic trace) (HReg rule f) = new_tree name (reg_ic ic (HReg rule f)) trace.
Proof. reflexivity. Qed.

Lemma bridge_no_reg : forall ops t ic, no_reg ops = true ->
  fold_left hstep ops t = fold_left tstep (hist_ops ops) t /\ fold_left reg_ic ops ic = ic.
Proof.
  induction ops as [|op ops IH]; intros t ic H; [split; reflexivity|].
  cbn [no_reg forallb] in H. apply andb_true_iff in H. destruct H as [H1 H2].
  destruct op as [d|d|rule f]; [| |discriminate H1]; cbn [fold_left hist_ops flat_map hop_top app reg_ic];
    apply IH; exact H2.
Qed.

Lemma bridge_gen : forall hist name ic trace, regs_first hist = true ->
  fold_left hstep hist (new_tree name ic trace) =
  fold_left tstep (hist_ops hist) (new_tree name (fold_left reg_ic hist ic) trace).
Proof.
  induction hist as [|op hist IH]; intros name ic trace H; [reflexivity|].
  destruct op as [d|d|rule f].
  - cbn [regs_first] in H. destruct (bridge_no_reg _ (new_tree name ic trace) ic H) as [E1 E2].
    rewrite E1, E2. reflexivity.
  - cbn [regs_first] in H. destruct (bridge_no_reg _ (new_tree name ic trace) ic H) as [E1 E2].
    rewrite E1, E2. reflexivity.
  - cbn [regs_first] in H. cbn [fold_left]. rewrite hstep_reg_new. rewrite (IH _ _ _ H). reflexivity.
Qed.

Theorem hosts_bridge : forall hist, regs_first hist = true ->
  hosts_reach hist = fold_left tstep (hist_ops hist) (new_tree (bs "host") (hist_ic hist) true).
Proof. intros hist H. unfold hosts_reach, hosts_new, hist_ic. now apply bridge_gen. Qed.

(* one more Add / Delete at the end *)
Lemma regs_first_snoc : forall hist op, regs_first hist = true -> is_reg op = false ->
  regs_first (hist ++ [op]) = true.
Proof.
  induction hist as [|o hist IH]; intros op H Hop.
  - destruct op; [reflexivity | reflexivity | discriminate Hop].
  - destruct o as [d|d|rule f]; cbn [app regs_first] in *; [| |now apply IH];
      unfold no_reg in *; cbn [forallb] in *; rewrite forallb_app; cbn [forallb];
      apply andb_true_iff in H; destruct H as [_ H]; rewrite H, Hop; reflexivity.
Qed.

Lemma hist_ops_snoc : forall hist op, hist_ops (hist ++ [op]) = (hist_ops hist ++ hop_top op)%list.
Proof. intros hist op. unfold hist_ops. rewrite flat_map_app. cbn [flat_map]. now rewrite app_nil_r. Qed.

Lemma hist_ic_snoc : forall hist op, is_reg op = false -> hist_ic (hist ++ [op]) = hist_ic hist.
Proof.
  intros hist op H. unfold hist_ic. rewrite fold_left_app. cbn [fold_left].
  destruct op; [reflexivity | reflexivity | discriminate H].
Qed.

(* the guards of the tree theorems, on the translated history *)
Definition hosts_tokens (hist : list hop) : bool := hist_tokens (hist_ops hist).
Definition hosts_canonb (hist : list hop) : bool := hist_canonb (hist_ops hist).

Lemma hosts_tokens_spec : forall hist, hosts_tokens hist = true <->
  forall d, In (HAdd d) hist -> exists ts, tokens (to_lower d) = Some ts.
Proof.
  intro hist. unfold hosts_tokens, hist_tokens. rewrite forallb_forall. split.
  - intros H d Id. specialize (H (OAdd (to_lower d) (HUser []) [] [GET])).
    assert (I : In (OAdd (to_lower d) (HUser []) [] [GET]) (hist_ops hist)).
    { unfold hist_ops. apply in_flat_map. exists (HAdd d). split; [exact Id | now left]. }
    specialize (H I). cbn [op_tokens] in H. destruct (tokens (to_lower d)) as [ts|]; [now exists ts | discriminate H].
  - intros H op Io. unfold hist_ops in Io. apply in_flat_map in Io. destruct Io as [o [Io Ho]].
    destruct o as [d|d|rule f]; cbn [hop_top] in Ho.
    + destruct Ho as [<-|[]]. cbn [op_tokens]. destruct (H d Io) as [ts ->]. reflexivity.
    + destruct Ho as [<-|[]]. reflexivity.
    + destruct Ho.
Qed.

Lemma hosts_canonb_spec : forall hist, hosts_canonb hist = true <->
  forall d, In (HAdd d) hist -> colon_ok 0 (to_lower d) = true.
Proof.
  intro hist. unfold hosts_canonb, hist_canonb. rewrite forallb_forall. split.
  - intros H d Id. apply (H (OAdd (to_lower d) (HUser []) [] [GET])).
    unfold hist_ops. apply in_flat_map. exists (HAdd d). split; [exact Id | now left].
  - intros H op Io. unfold hist_ops in Io. apply in_flat_map in Io. destruct Io as [o [Io Ho]].
    destruct o as [d|d|rule f]; cbn [hop_top] in Ho.
    + destruct Ho as [<-|[]]. cbn [op_canonb]. exact (H d Io).
    + destruct Ho as [<-|[]]. reflexivity.
    + destruct Ho.
Qed.

Lemma no_del_add_only : forall hist, no_del hist = true -> add_only (hist_ops hist) = true.
Proof.
  intros hist H. unfold add_only. rewrite forallb_forall. intros op Io.
  unfold hist_ops in Io. apply in_flat_map in Io. destruct Io as [o [Io Ho]].
  unfold no_del in H. rewrite forallb_forall in H. specialize (H o Io).
  destruct o as [d|d|rule f]; cbn [hop_top] in Ho; [|discriminate H|destruct Ho].
  destruct Ho as [<-|[]]. reflexivity.
Qed.

Lemma hosts_tokens_snoc_del : forall hist d, hosts_tokens hist = true -> hosts_tokens (hist ++ [HDel d]) = true.
Proof.
  intros hist d H. unfold hosts_tokens in *. rewrite hist_ops_snoc. unfold hist_tokens in *.
  rewrite forallb_app, H. reflexivity.
Qed.

(* a registration made after an Add is outside the bridge: "{x:digit}.com" is added while "digit"
   is no interceptor (the rule is compiled as the regular expression "digit"); registering the
   interceptor "digit" afterwards does not change the node *)
Definition cx_bridge_hist : list hop := [HAdd (bs "{x:digit}.com"); HReg (bs "digit") match_digit].

Example cx_bridge_facts :
  regs_first cx_bridge_hist = false /\
  hosts_match_raw (hosts_reach cx_bridge_hist) (bs "digit.com") [] = Some (true, [(bs "x", bs "digit")]) /\
  hosts_match_raw (hosts_reach cx_bridge_hist) (bs "5.com") [] = Some (false, []) /\
  let t := fold_left tstep (hist_ops cx_bridge_hist) (new_tree (bs "host") (hist_ic cx_bridge_hist) true) in
  hosts_match_raw t (bs "digit.com") [] = Some (false, []) /\
  hosts_match_raw t (bs "5.com") [] = Some (true, [(bs "x", bs "5")]).
Proof. vm_compute. repeat split; reflexivity. Qed.

Theorem hosts_bridge_refuted :
  ~ (forall hist, hosts_reach hist = fold_left tstep (hist_ops hist) (new_tree (bs "host") (hist_ic hist) true)).
Proof.
  intro H. specialize (H cx_bridge_hist).
  destruct cx_bridge_facts as [_ [A [_ [B _]]]]. cbv zeta in B. rewrite <- H in B. rewrite A in B. discriminate B.
Qed.

(* ================================================================ Part 2 : what Hosts.Match is *)

(* the domain pattern that answers, with the parameters *)
Definition hosts_answer (t : tree) (host : bytes) : option (bytes * params) :=
  match tree_handler t GET (normalise_host host) [] with
  | HFound true (Some n) _ ps => Some (npat n, ps)
  | _ => None
  end.

Definition special (path : bytes) : Prop := path = [] \/ path = bs "*".

Lemma special_dec : forall path, {special path} + {path <> [] /\ path <> bs "*"}.
Proof.
  intro path. destruct (beqb_spec path []) as [E|N1]; [left; now left|].
  destruct (beqb_spec path (bs "*")) as [E|N2]; [left; now right | right; now split].
Qed.

Lemma special_beqb : forall path, beqb path (bs "*") || beqb path [] = true <-> special path.
Proof.
  intro path. rewrite orb_true_iff, !beqb_eq. unfold special. tauto.
Qed.

Definition hroot (t : tree) : Prop :=
  nhandlers (troot t) = [(OPTIONS, HOptions); (M405, HNotAllowed)] /\ ttrace t = Some HTrace.

Lemma hroot_new : hroot hosts_new.
Proof. split; reflexivity. Qed.

Lemma hroot_step : forall t op, tree_safe t -> hroot t -> hroot (hstep t op).
Proof.
  intros t op Hs [Hh Ht]. destruct op as [d|d|rule f]; cbn [hstep].
  - destruct (hosts_add t d) as [t'|e|s|] eqn:E; cbn [hkeep]; try (split; assumption).
    unfold hosts_add in E. apply tree_add_get_inv in E. destruct E as [segs [root' [G ->]]].
    split; [|exact Ht]. cbn [tree_build_methods troot]. rewrite nhandlers_set_handlers.
    rewrite (TreeAbs.get_node_hs _ _ _ _ _ _ G). exact Hh.
  - destruct (hosts_delete t d) as [t'|e|s|] eqn:E; cbn [hkeep]; try (split; assumption).
    unfold hosts_delete in E. apply tree_remove_inv in E.
    destruct E as [->|[root' [removed [R ->]]]]; [split; assumption|].
    split; [|exact Ht]. cbn [tree_build_methods troot]. rewrite nhandlers_set_handlers.
    rewrite (proj2 (remove_in_safe _ _ _ _ _ _ _ (proj1 Hs) R)). exact Hh.
  - split; [exact Hh | exact Ht].
Qed.

Lemma hroot_reach : forall hist, hroot (hosts_reach hist).
Proof.
  intro hist. induction hist as [|op hist IH] using rev_ind; [exact hroot_new|].
  rewrite hosts_reach_snoc. apply hroot_step; [apply hosts_safe_reachable | exact IH].
Qed.

(* "" and "*" are looked up at the root, which answers OPTIONS only: rejected, parameters untouched *)
Lemma hosts_special_rejected_t : forall t host ps, hroot t -> special (normalise_host host) ->
  hosts_match_raw t host ps = Some (false, ps).
Proof.
  intros t host ps [Hh Ht] Hsp. unfold hosts_match_raw. rewrite tree_handler_eq, Ht, get_not_trace.
  apply special_beqb in Hsp. rewrite Hsp. cbn [handler_of]. unfold nsize. rewrite Hh. reflexivity.
Qed.

Theorem hosts_special_rejected : forall hist host ps, special (normalise_host host) ->
  hosts_match_raw (hosts_reach hist) host ps = Some (false, ps).
Proof. intros hist host ps H. apply hosts_special_rejected_t; [apply hroot_reach | exact H]. Qed.

(* on any other host: either a node below the root answers GET, or nothing is found *)
Lemma hosts_handler_cases : forall t path ps, kids_ok has_get (troot t) -> tree_safe t -> hroot t ->
  path <> [] -> path <> bs "*" ->
  (exists n h ps', tree_handler t GET path ps = HFound true (Some n) h ps' /\
                   match_children (tree_fuel t) (troot t) path ps = MFound n ps') \/
  (exists h ps', tree_handler t GET path ps = HFound false None h ps').
Proof.
  intros t path ps Hg Hs [_ Ht] N1 N2.
  pose proof (handler_total t GET path ps) as Htot.
  rewrite tree_handler_eq, Ht, get_not_trace in *.
  assert (SP : beqb path (bs "*") || beqb path [] = false).
  { destruct (beqb path (bs "*") || beqb path []) eqn:E; [|reflexivity].
    apply special_beqb in E. destruct E as [E|E]; [now elim N1 | now elim N2]. }
  rewrite SP in *.
  destruct (match_children (tree_fuel t) (troot t) path ps) as [r p|p|s] eqn:MC.
  - left. pose proof (match_children_found_size _ _ _ _ _ _ MC) as Hsz.
    destruct (match_children_found_below has_get _ _ _ _ _ _ Hg MC) as [[_ Hp]|Hr]; [now elim N1|].
    cbn [handler_of]. destruct (Nat.eqb_spec (nsize r) 0) as [E0|_]; [lia|].
    destruct Hr as [Hnil|Hget]; [unfold nsize in Hsz; rewrite Hnil in Hsz; simpl in Hsz; lia|].
    unfold lookup_handler. rewrite get_not_405. unfold ahas in Hget.
    destruct (alookup GET (nhandlers r)) as [h|]; [|discriminate Hget].
    exists r, h, p. split; reflexivity.
  - right. cbn [handler_of]. now exists (tnotfound t), p.
  - exfalso. exact (Htot s Hs eq_refl).
Qed.

Lemma hosts_match_answer : forall t host ps,
  hosts_match_raw t host [] = Some (true, ps) <-> exists dom, hosts_answer t host = Some (dom, ps).
Proof.
  intros t host ps. unfold hosts_match_raw, hosts_answer.
  destruct (tree_handler t GET (normalise_host host) []) as [ok on h ps'|s] eqn:E.
  - destruct ok.
    + assert (Hn : exists n, on = Some n).
      { rewrite tree_handler_eq in E.
        destruct (match ttrace t with Some h0 => if beqb GET TRACE then Some h0 else None | None => None end);
          [injection E as <- _ _; now eexists|].
        destruct (if beqb (normalise_host host) (bs "*") || beqb (normalise_host host) []
                  then MFound (troot t) []
                  else match_children (tree_fuel t) (troot t) (normalise_host host) []) as [r p|p|s];
          cbn [handler_of] in E; [|discriminate E|discriminate E].
        destruct (Nat.eqb (nsize r) 0); [discriminate E|].
        destruct (lookup_handler GET (nhandlers r)); [injection E as <- _ _; now eexists|].
        destruct (alookup M405 (nhandlers r)); discriminate E. }
      destruct Hn as [n ->]. split.
      * intro H. injection H as <-. now exists (npat n).
      * intros [dom H]. injection H as _ <-. reflexivity.
    + split; [discriminate|]. intros [dom H]. destruct on; discriminate H.
  - split; [discriminate|]. intros [dom H]. discriminate H.
Qed.

Lemma hosts_match_reject : forall t host, tree_safe t ->
  (exists ps, hosts_match_raw t host [] = Some (false, ps)) <-> hosts_answer t host = None.
Proof.
  intros t host Hs. pose proof (hosts_match_total_safe t host [] Hs) as Htot.
  destruct (hosts_match_raw t host []) as [[[|] ps]|] eqn:E; [| |now elim Htot].
  - destruct (proj1 (hosts_match_answer t host ps) E) as [dom ->]. split; [intros [q Hq]; discriminate Hq | discriminate].
  - split; [|intros _; now exists ps]. intros _.
    destruct (hosts_answer t host) as [[dom q]|] eqn:A; [|reflexivity].
    assert (X : hosts_match_raw t host [] = Some (true, q)) by (apply hosts_match_answer; now exists dom).
    rewrite E in X. discriminate X.
Qed.

(* ================================================================ Part 3 : the registered domains *)

(* the table the test oracle holds: a domain is entered when Add accepted it, removed by Delete *)
Definition hosts_rows (hist : list hop) : table :=
  table_of (bs "host") (hist_ic hist) true (hist_ops hist).
Definition hosts_domains (hist : list hop) : list bytes := akeys (hosts_rows hist).

(* the table the resolver runs on: the live domain patterns with their tokens *)
Definition hosts_table (hist : list hop) : list (bytes * list tok) := tree_table (hosts_reach hist).

(* without any tree: [d] was accepted by some Add (in any spelling) and no later Delete names it *)
Definition added_live (hist : list hop) (d : bytes) : Prop :=
  exists pre d0 post, hist = (pre ++ HAdd d0 :: post)%list /\ to_lower d0 = d /\
    (exists t', hosts_add (hosts_reach pre) d0 = Ok t') /\
    (forall d1, In (HDel d1) post -> to_lower d1 <> d).

Lemma In_akeys_alookup : forall (V : Type) (l : list (bytes * V)) k,
  In k (akeys l) <-> exists v, alookup k l = Some v.
Proof.
  intros V l k. split.
  - intro I. destruct (alookup k l) as [v|] eqn:E; [now exists v|].
    apply alookup_None in E. now elim E.
  - intros [v E]. destruct (in_dec bytes_eq_dec k (akeys l)) as [I|NI]; [exact I|].
    apply alookup_None in NI. rewrite NI in E. discriminate E.
Qed.

(* a live domain is a node with handlers, and conversely *)
Lemma hosts_domain_node : forall hist d, regs_first hist = true -> hosts_tokens hist = true ->
  (In d (hosts_domains hist) <->
   exists n, desc (troot (hosts_reach hist)) n /\ npat n = d /\ nhandlers n <> []).
Proof.
  intros hist d Hr Ht. unfold hosts_domains, hosts_rows. rewrite In_akeys_alookup.
  rewrite (hosts_bridge hist Hr). split.
  - intros [e L]. destruct (C03_row_is_live_node_l _ _ _ _ _ _ Ht L) as [n [D [Ep [Eh Hne]]]].
    exists n. split; [exact D|]. split; [exact Ep | now rewrite Eh].
  - intros [n [D [<- Hne]]]. exists (nhandlers n).
    exact (C03_live_node_is_row_l _ _ _ _ _ Ht D Hne).
Qed.

Theorem hosts_table_spec : forall hist d ts, regs_first hist = true -> hosts_tokens hist = true ->
  (In (d, ts) (hosts_table hist) <-> In d (hosts_domains hist) /\ tokens d = Some ts).
Proof.
  intros hist d ts Hr Ht. unfold hosts_table. rewrite tree_table_spec, tree_pats_spec.
  rewrite (hosts_domain_node hist d Hr Ht). split.
  - intros [[n [D [Hne E]]] T]. split; [|exact T]. exists n. split; [exact D|]. now split.
  - intros [[n [D [E Hne]]] T]. split; [|exact T]. exists n. split; [exact D|]. now split.
Qed.

Lemma regs_first_snoc_inv : forall hist op, regs_first (hist ++ [op]) = true ->
  regs_first hist = true /\ (is_reg op = true -> forallb is_reg hist = true).
Proof.
  induction hist as [|o hist IH]; intros op H; [split; reflexivity|].
  destruct o as [d|d|rule f]; cbn [app regs_first] in H.
  - unfold no_reg in H. cbn [forallb] in H. rewrite forallb_app in H. cbn [forallb is_reg negb andb] in H.
    apply andb_true_iff in H. destruct H as [H1 H2]. rewrite andb_true_r in H2.
    split; [cbn [regs_first]; unfold no_reg; cbn [forallb is_reg negb andb]; exact H1|].
    intro R. rewrite R in H2. discriminate H2.
  - unfold no_reg in H. cbn [forallb] in H. rewrite forallb_app in H. cbn [forallb is_reg negb andb] in H.
    apply andb_true_iff in H. destruct H as [H1 H2]. rewrite andb_true_r in H2.
    split; [cbn [regs_first]; unfold no_reg; cbn [forallb is_reg negb andb]; exact H1|].
    intro R. rewrite R in H2. discriminate H2.
  - destruct (IH op H) as [A B]. split; [exact A|]. intro R. cbn [forallb is_reg]. exact (B R).
Qed.

Lemma all_reg_ops : forall hist, forallb is_reg hist = true -> hist_ops hist = [].
Proof.
  induction hist as [|o hist IH]; intro H; [reflexivity|]. cbn [forallb] in H.
  apply andb_true_iff in H. destruct H as [H1 H2].
  destruct o; [discriminate H1 | discriminate H1|]. cbn [hist_ops flat_map hop_top app]. exact (IH H2).
Qed.

Lemma hosts_rows_snoc : forall hist op, regs_first (hist ++ [op]) = true -> is_reg op = false ->
  hosts_rows (hist ++ [op]) =
  match op with
  | HAdd d => match hosts_add (hosts_reach hist) d with
              | Ok _ => t_handle (cfg_of (bs "host") (hist_ic hist) true) (hosts_rows hist) (to_lower d) (HUser []) [] [GET]
              | _ => hosts_rows hist
              end
  | HDel d => t_remove (hosts_rows hist) (to_lower d) []
  | HReg _ _ => hosts_rows hist
  end.
Proof.
  intros hist op Hr Hop. destruct (regs_first_snoc_inv _ _ Hr) as [Hr0 _].
  unfold hosts_rows, table_of. rewrite (hist_ic_snoc _ _ Hop), hist_ops_snoc.
  destruct op as [d|d|rule f]; [| |discriminate Hop]; cbn [hop_top];
    rewrite lock_run_app; unfold lock_step; cbn [snd tab_step]; rewrite ?lock_run_fst;
    try rewrite <- (hosts_bridge hist Hr0); reflexivity.
Qed.

Lemma hosts_rows_all_reg : forall hist, forallb is_reg hist = true -> hosts_rows hist = [].
Proof. intros hist H. unfold hosts_rows. rewrite (all_reg_ops hist H). reflexivity. Qed.

Lemma all_reg_no_add : forall hist d, forallb is_reg hist = true -> ~ In (HAdd d) hist.
Proof.
  intros hist d H I. rewrite forallb_forall in H. specialize (H _ I). discriminate H.
Qed.

Lemma added_live_snoc : forall hist op d, added_live hist d ->
  (forall d1, op = HDel d1 -> to_lower d1 <> d) -> added_live (hist ++ [op]) d.
Proof.
  intros hist op d [pre [d0 [post [-> [E [A Hp]]]]]] Hop.
  exists pre, d0, (post ++ [op])%list. split; [now rewrite <- app_assoc|]. split; [exact E|]. split; [exact A|].
  intros d1 I. apply in_app_or in I. destruct I as [I|[X|[]]]; [exact (Hp d1 I) | exact (Hop d1 X)].
Qed.

Lemma app_snoc_inv : forall (A : Type) (l1 l2 : list A) x y post,
  (l1 ++ [x] = l2 ++ y :: post)%list ->
  (post = [] /\ l1 = l2 /\ x = y) \/ exists post', post = (post' ++ [x])%list /\ l1 = (l2 ++ y :: post')%list.
Proof.
  intros A l1 l2 x y post H. destruct (@exists_last _ (y :: post)) as [l' [z E]]; [discriminate|].
  destruct post as [|p post].
  - left. apply app_inj_tail in H. destruct H as [-> ->]. now repeat split.
  - right. destruct (@exists_last _ (p :: post)) as [post' [z' E']]; [discriminate|].
    rewrite E' in *. exists post'.
    replace (l2 ++ y :: post' ++ [z'])%list with ((l2 ++ y :: post') ++ [z'])%list in H
      by (rewrite <- app_assoc; reflexivity).
    apply app_inj_tail in H. destruct H as [-> ->]. now split.
Qed.

(* the oracle's table holds exactly the domains accepted by an Add and not deleted since *)
Theorem hosts_domains_spec : forall hist d, regs_first hist = true ->
  (In d (hosts_domains hist) <-> added_live hist d).
Proof.
  unfold hosts_domains.
  induction hist as [|op hist IH] using rev_ind; intros d Hr.
  - split; [intros []|]. intros [pre [d0 [post [E _]]]]. destruct pre; discriminate E.
  - destruct (regs_first_snoc_inv _ _ Hr) as [Hr0 Hall]. specialize (IH d Hr0).
    destruct (is_reg op) eqn:Hop.
    + (* a registration: no Add so far *)
      specialize (Hall eq_refl). destruct op as [d1|d1|rule f]; [discriminate Hop | discriminate Hop|].
      assert (Hall' : forallb is_reg (hist ++ [HReg rule f]) = true)
        by (rewrite forallb_app, Hall; reflexivity).
      rewrite (hosts_rows_all_reg _ Hall'). split; [intros []|].
      intros [pre [d0 [post [E _]]]]. exfalso. apply (all_reg_no_add _ d0 Hall').
      rewrite E. apply in_or_app. right. now left.
    + rewrite (hosts_rows_snoc hist op Hr Hop). destruct op as [d1|d1|rule f]; [| |discriminate Hop].
      * (* Add *)
        destruct (hosts_add (hosts_reach hist) d1) as [t'|e|s|] eqn:A.
        -- unfold t_handle. rewrite akeys_aset_in. split.
           ++ intros [->|I].
              ** exists hist, d1, []. split; [reflexivity|]. split; [reflexivity|].
                 split; [now exists t' | intros d2 []].
              ** apply added_live_snoc; [now apply IH | discriminate].
           ++ intros [pre [d0 [post [E [El [Acc Hp]]]]]].
              destruct (app_snoc_inv _ _ _ _ _ _ E) as [[-> [-> X]]|[post' [-> ->]]].
              ** injection X as <-. now left.
              ** right. apply IH. exists pre, d0, post'. split; [reflexivity|]. split; [exact El|].
                 split; [exact Acc|]. intros d2 I. apply Hp. apply in_or_app. now left.
        -- split.
           ++ intro I. apply added_live_snoc; [now apply IH | discriminate].
           ++ intros [pre [d0 [post [E [El [[t' Acc] Hp]]]]]].
              destruct (app_snoc_inv _ _ _ _ _ _ E) as [[-> [-> X]]|[post' [-> ->]]].
              ** injection X as <-. rewrite A in Acc. discriminate Acc.
              ** apply IH. exists pre, d0, post'. split; [reflexivity|]. split; [exact El|].
                 split; [now exists t'|]. intros d2 I. apply Hp. apply in_or_app. now left.
        -- split.
           ++ intro I. apply added_live_snoc; [now apply IH | discriminate].
           ++ intros [pre [d0 [post [E [El [[t' Acc] Hp]]]]]].
              destruct (app_snoc_inv _ _ _ _ _ _ E) as [[-> [-> X]]|[post' [-> ->]]].
              ** injection X as <-. rewrite A in Acc. discriminate Acc.
              ** apply IH. exists pre, d0, post'. split; [reflexivity|]. split; [exact El|].
                 split; [now exists t'|]. intros d2 I. apply Hp. apply in_or_app. now left.
        -- split.
           ++ intro I. apply added_live_snoc; [now apply IH | discriminate].
           ++ intros [pre [d0 [post [E [El [[t' Acc] Hp]]]]]].
              destruct (app_snoc_inv _ _ _ _ _ _ E) as [[-> [-> X]]|[post' [-> ->]]].
              ** injection X as <-. rewrite A in Acc. discriminate Acc.
              ** apply IH. exists pre, d0, post'. split; [reflexivity|]. split; [exact El|].
                 split; [now exists t'|]. intros d2 I. apply Hp. apply in_or_app. now left.
      * (* Delete *)
        assert (K : In d (akeys (t_remove (hosts_rows hist) (to_lower d1) [])) <->
                    d <> to_lower d1 /\ In d (akeys (hosts_rows hist))).
        { unfold t_remove. destruct (alookup (to_lower d1) (hosts_rows hist)) as [e|] eqn:L.
          - apply akeys_adelete_in.
          - apply alookup_None in L. split; [|tauto]. intro I. split; [|exact I]. intros ->. now elim L. }
        rewrite K. split.
        -- intros [Nd I]. apply added_live_snoc; [now apply IH|].
           intros d2 X. injection X as <-. congruence.
        -- intros [pre [d0 [post [E [El [Acc Hp]]]]]].
           destruct (app_snoc_inv _ _ _ _ _ _ E) as [[_ [_ X]]|[post' [-> ->]]]; [discriminate X|].
           split.
           ++ intro X. apply (Hp d1); [apply in_or_app; right; now left | now symmetry].
           ++ apply IH. exists pre, d0, post'. split; [reflexivity|]. split; [exact El|].
              split; [exact Acc|]. intros d2 I. apply Hp. apply in_or_app. now left.
Qed.

(* an accepted domain is not empty *)
Lemma hosts_add_nonempty : forall t d t', hosts_add t d = Ok t' -> to_lower d <> [].
Proof.
  intros t d t' H E. unfold hosts_add in H. rewrite E in H. unfold tree_add in H.
  apply TreeSafe.bind_ok in H. destruct H as [amb [_ H]].
  destruct amb as [[p0 [|]]|]; [discriminate H| |]; cbn [split bind] in H; discriminate H.
Qed.

Lemma hosts_domain_nonempty : forall hist d, regs_first hist = true -> In d (hosts_domains hist) -> d <> [].
Proof.
  intros hist d Hr I. apply (hosts_domains_spec hist d Hr) in I.
  destruct I as [pre [d0 [post [_ [<- [[t' A] _]]]]]]. exact (hosts_add_nonempty _ _ _ A).
Qed.

(* ================================================================ Part 4 : the resolver *)

(* on a non-empty text the search answers from strictly below the start node *)
Lemma match_found_strict : forall f n path ps r q, match_children f n path ps = MFound r q ->
  path <> [] -> desc n r /\ nhandlers r <> [].
Proof.
  intros f n path ps r q H Hne. destruct f as [|f]; [discriminate H|].
  assert (Hsz : forall x, 0 < nsize x -> nhandlers x <> []).
  { intros x Hx E. unfold nsize in Hx. rewrite E in Hx. simpl in Hx. lia. }
  destruct (match_children_found_cases _ _ _ _ _ _ H) as
    [[_ [Hp _]] | [[c [p1 [ps1 [Hi [_ MC]]]]] | [pre [c [post [p1 [ps1 [Hl [_ [_ [_ MC]]]]]]]]]]].
  - now elim Hne.
  - assert (Ic : In c (nchildren n)) by (apply (idx_child_In n path); rewrite Hi; now left).
    destruct (match_found_below _ _ _ _ _ _ MC) as [[->|D] Hs]; (split; [|exact (Hsz _ Hs)]);
      [now apply desc_child | now apply (desc_step n c)].
  - assert (Ic : In c (nchildren n)).
    { apply tail_of_incl. rewrite Hl. apply in_or_app. right. now left. }
    destruct (match_found_below _ _ _ _ _ _ MC) as [[->|D] Hs]; (split; [|exact (Hsz _ Hs)]);
      [now apply desc_child | now apply (desc_step n c)].
Qed.

(* everything Hosts.Match can do on a reachable tree *)
Lemma hosts_match_cases : forall hist host,
  let t := hosts_reach hist in
  let host' := normalise_host host in
  (special host' /\ hosts_match_raw t host [] = Some (false, []) /\ hosts_answer t host = None) \/
  (~ special host' /\
   ((exists n h ps, tree_handler t GET host' [] = HFound true (Some n) h ps /\
                    desc (troot t) n /\ nhandlers n <> [] /\
                    hosts_match_raw t host [] = Some (true, ps) /\ hosts_answer t host = Some (npat n, ps)) \/
    (exists h, tree_handler t GET host' [] = HFound false None h [] /\
               hosts_match_raw t host [] = Some (false, []) /\ hosts_answer t host = None))).
Proof.
  intros hist host t host'. destruct (hinv_reach hist) as [_ [Hs [Hg _]]]. fold t in Hs, Hg.
  pose proof (hroot_reach hist) as Hr. fold t in Hr.
  destruct (special_dec host') as [Sp|[N1 N2]].
  - left. split; [exact Sp|]. pose proof (hosts_special_rejected hist host [] Sp) as M. fold t in M.
    split; [exact M|]. apply (hosts_match_reject t host Hs). now exists [].
  - right. split; [intros [E|E]; [now elim N1 | now elim N2]|].
    destruct (hosts_handler_cases t host' [] Hg Hs Hr N1 N2) as [[n [h [ps [E MC]]]] | [h [ps E]]].
    + left. exists n, h, ps. split; [exact E|].
      destruct (match_found_strict _ _ _ _ _ _ MC N1) as [D Hne]. split; [exact D|]. split; [exact Hne|].
      unfold hosts_match_raw, hosts_answer. fold host'. rewrite E. split; reflexivity.
    + right. assert (M : hosts_match_raw t host [] = Some (false, ps)).
      { unfold hosts_match_raw. fold host'. now rewrite E. }
      pose proof (hosts_clean_empty_ctx hist host ps M) as ->.
      exists h. split; [exact E|]. split; [exact M|]. unfold hosts_answer. fold host'. now rewrite E.
Qed.

Lemma get_ne_trace : GET <> TRACE.
Proof. discriminate. Qed.

(* THE REFINEMENT.  Add-only histories (registrations first), every added domain tokenises and is
   canonically spelled: an accepted host resolves, under the documented procedure run on the table
   of the live domains with the registered interceptors, to a live domain with exactly the reported
   parameters; a rejected host (other than "" and "*") has no resolution at all. *)
Theorem hosts_refines_resolver : forall hist host,
  regs_first hist = true -> no_del hist = true -> hosts_tokens hist = true -> hosts_canonb hist = true ->
  let host' := normalise_host host in
  match hosts_match_raw (hosts_reach hist) host [] with
  | Some (true, ps) => ~ special host' /\
      exists d, In d (hosts_domains hist) /\ In (d, ps) (resolve (hist_ic hist) (hosts_table hist) host')
  | Some (false, ps) => ps = [] /\ (special host' \/ resolve (hist_ic hist) (hosts_table hist) host' = [])
  | None => False
  end.
Proof.
  intros hist host Hr Hd Ht Hc host'.
  pose proof (hosts_match_cases hist host) as C. cbv zeta in C. fold host' in C.
  destruct C as [[Sp [M _]] | [Nsp [[n [h [ps [E [D [Hne [M _]]]]]]] | [h [E [M _]]]]]]; rewrite M.
  - split; [reflexivity | now left].
  - split; [exact Nsp|]. exists (npat n). split.
    + apply (hosts_domain_node hist (npat n) Hr Ht). exists n. split; [exact D|]. now split.
    + assert (N1 : host' <> []) by (intro X; apply Nsp; now left).
      assert (N2 : host' <> bs "*") by (intro X; apply Nsp; now right).
      pose proof (tree_refines_resolver_canon (bs "host") (hist_ic hist) true (hist_ops hist) GET host'
                    (no_del_add_only hist Hd) Ht Hc N1 N2) as R.
      cbv zeta in R. specialize (R (or_intror get_ne_trace)).
      rewrite <- (hosts_bridge hist Hr) in R. rewrite E in R. exact R.
  - split; [reflexivity|]. right.
    assert (N1 : host' <> []) by (intro X; apply Nsp; now left).
    assert (N2 : host' <> bs "*") by (intro X; apply Nsp; now right).
    pose proof (tree_refines_resolver_canon (bs "host") (hist_ic hist) true (hist_ops hist) GET host'
                  (no_del_add_only hist Hd) Ht Hc N1 N2) as R.
    cbv zeta in R. specialize (R (or_intror get_ne_trace)).
    rewrite <- (hosts_bridge hist Hr) in R. rewrite E in R. exact R.
Qed.

(* the same against the table in any order (e.g. the order of registration) *)
Theorem hosts_refines_resolver_any_order : forall hist host table,
  regs_first hist = true -> no_del hist = true -> hosts_tokens hist = true -> hosts_canonb hist = true ->
  Permutation table (hosts_table hist) ->
  let host' := normalise_host host in
  match hosts_match_raw (hosts_reach hist) host [] with
  | Some (true, ps) => ~ special host' /\
      exists d, In d (hosts_domains hist) /\ In (d, ps) (resolve (hist_ic hist) table host')
  | Some (false, ps) => ps = [] /\ (special host' \/ resolve (hist_ic hist) table host' = [])
  | None => False
  end.
Proof.
  intros hist host table Hr Hd Ht Hc Hp host'.
  pose proof (hosts_refines_resolver hist host Hr Hd Ht Hc) as R. cbv zeta in R. fold host' in R.
  destruct (hosts_match_raw (hosts_reach hist) host []) as [[[|] ps]|]; [| |exact R].
  - destruct R as [Nsp [d [Id Ir]]]. split; [exact Nsp|]. exists d. split; [exact Id|].
    apply (resolve_perm (hist_ic hist) table (hosts_table hist) host' Hp). exact Ir.
  - destruct R as [E [Sp|Rn]]; (split; [exact E|]); [now left | right].
    destruct (resolve (hist_ic hist) table host') as [|x l] eqn:Er; [reflexivity|].
    assert (I : In x (resolve (hist_ic hist) (hosts_table hist) host')).
    { apply (resolve_perm (hist_ic hist) table (hosts_table hist) host' Hp). rewrite Er. now left. }
    rewrite Rn in I. destruct I.
Qed.

(* ================================================================ Part 5 : Delete *)

Lemma hosts_reach_del : forall hist d,
  hosts_reach (hist ++ [HDel d]) = keep (hosts_reach hist) (tree_remove (hosts_reach hist) (to_lower d) []).
Proof. intros hist d. rewrite hosts_reach_snoc. reflexivity. Qed.

(* Delete takes exactly the named domain out of the table *)
Theorem hosts_domains_delete : forall hist d x, regs_first hist = true ->
  (In x (hosts_domains (hist ++ [HDel d])) <-> x <> to_lower d /\ In x (hosts_domains hist)).
Proof.
  intros hist d x Hr. unfold hosts_domains.
  rewrite (hosts_rows_snoc hist (HDel d) (regs_first_snoc hist (HDel d) Hr eq_refl) eq_refl).
  unfold t_remove. destruct (alookup (to_lower d) (hosts_rows hist)) as [e|] eqn:L.
  - apply akeys_adelete_in.
  - apply alookup_None in L. split; [|tauto]. intro I. split; [|exact I]. intros ->. now elim L.
Qed.

(* FRAME: a host answered by another domain is answered identically, a rejected host stays rejected *)
Theorem hosts_delete_frame : forall hist d host,
  regs_first hist = true -> hosts_tokens hist = true ->
  let t := hosts_reach hist in
  let t' := hosts_reach (hist ++ [HDel d]) in
  (forall dom ps, hosts_answer t host = Some (dom, ps) -> dom <> to_lower d ->
     hosts_answer t' host = Some (dom, ps) /\ hosts_match_raw t' host [] = Some (true, ps)) /\
  (forall ps, hosts_match_raw t host [] = Some (false, ps) -> hosts_match_raw t' host [] = Some (false, ps)).
Proof.
  intros hist d host Hr Ht t t'.
  assert (Hm : forall dom ps, hosts_answer t' host = Some (dom, ps) ->
             hosts_answer t' host = Some (dom, ps) /\ hosts_match_raw t' host [] = Some (true, ps)).
  { intros dom ps A. split; [exact A|]. apply hosts_match_answer. now exists dom. }
  pose proof (hosts_match_cases hist host) as C. cbv zeta in C. fold t in C.
  unfold t'. rewrite hosts_reach_del. fold t.
  destruct (tree_remove t (to_lower d) []) as [t1|e|s|] eqn:R; cbn [keep];
    try (split; [intros dom ps A _; split; [exact A | apply hosts_match_answer; now exists dom]
                | intros ps M; exact M]).
  pose proof (hosts_special_rejected (hist ++ [HDel d]) host []) as Sp'.
  rewrite hosts_reach_del in Sp'. fold t in Sp'. rewrite R in Sp'. cbn [keep] in Sp'.
  unfold t in R, C. rewrite (hosts_bridge hist Hr) in R, C.
  destruct C as [[Sp [M A]] | [Nsp [[n [h [ps [E [D [Hne [M A]]]]]]] | [h [E [M A]]]]]].
  - fold t in M, A. split.
    + intros dom ps A'. rewrite <- (hosts_bridge hist Hr) in A. fold t in A. rewrite A in A'. discriminate A'.
    + intros ps M'. rewrite <- (hosts_bridge hist Hr) in M. fold t in M. rewrite M in M'. injection M' as <-.
      exact (Sp' Sp).
  - rewrite <- (hosts_bridge hist Hr) in M, A. fold t in M, A. split.
    + intros dom ps0 A' Nd. rewrite A in A'. injection A' as <- <-.
      destruct (C03_remove_frame_l _ _ _ _ _ _ _ _ _ _ _ _ _ Ht E Nd R) as [n' [E' Ep]].
      assert (A1 : hosts_answer t1 host = Some (npat n, ps)).
      { unfold hosts_answer. rewrite E', Ep. reflexivity. }
      split; [exact A1|]. apply hosts_match_answer. now exists (npat n).
    + intros ps0 M'. rewrite M in M'. discriminate M'.
  - rewrite <- (hosts_bridge hist Hr) in M, A. fold t in M, A. split.
    + intros dom ps0 A'. rewrite A in A'. discriminate A'.
    + intros ps0 M'. rewrite M in M'. injection M' as <-.
      pose proof (C03_remove_frame_404_l _ _ _ _ _ _ _ _ _ _ _ Ht E R) as E'.
      unfold hosts_match_raw. now rewrite E'.
Qed.

(* GONE: after Delete no host is answered by the deleted domain (in any spelling) *)
Theorem hosts_deleted_gone : forall hist d host dom ps,
  regs_first hist = true -> hosts_tokens hist = true ->
  hosts_answer (hosts_reach (hist ++ [HDel d])) host = Some (dom, ps) -> dom <> to_lower d.
Proof.
  intros hist d host dom ps Hr Ht A.
  assert (Hr' : regs_first (hist ++ [HDel d]) = true) by (now apply regs_first_snoc).
  assert (Ht' : hosts_tokens (hist ++ [HDel d]) = true) by (now apply hosts_tokens_snoc_del).
  pose proof (hosts_match_cases (hist ++ [HDel d]) host) as C. cbv zeta in C.
  destruct C as [[_ [_ A']] | [_ [[n [h [ps' [_ [D [Hne [_ A']]]]]]] | [h [_ [_ A']]]]]];
    rewrite A in A'; [discriminate A'| |discriminate A'].
  injection A' as -> ->.
  assert (I : In (npat n) (hosts_domains (hist ++ [HDel d]))).
  { apply (hosts_domain_node _ _ Hr' Ht'). exists n. split; [exact D|]. now split. }
  apply (hosts_domains_delete hist d (npat n) Hr) in I. exact (proj1 I).
Qed.

Corollary hosts_deleted_gone_ci : forall hist d d' host dom ps,
  regs_first hist = true -> hosts_tokens hist = true -> to_lower d = to_lower d' ->
  hosts_answer (hosts_reach (hist ++ [HDel d])) host = Some (dom, ps) -> dom <> to_lower d'.
Proof. intros hist d d' host dom ps Hr Ht E A. rewrite <- E. exact (hosts_deleted_gone _ _ _ _ _ Hr Ht A). Qed.

(* ================================================================ Part 6 : soundness *)

(* the labels of a reachable tree are the segments new_segment makes of their texts *)
Lemma desc_nbseg : forall ic n d, G ic n -> desc n d -> nbseg ic (nseg d).
Proof.
  intros ic n d Hg D. induction D as [n ch Ich|n ch d Ich D IH].
  - exact (proj1 (all_nodes_here _ _ Hg) ch Ich).
  - apply IH. exact (all_nodes_child _ n ch Hg Ich).
Qed.

Lemma nbseg_wf : forall ic s, nbseg ic s -> seg_wf s.
Proof.
  intros ic s Hs Ep. destruct (isparam s) eqn:P.
  - destruct (param_label ic s Hs P) as [body [suf [_ [_ [_ [Hsuf [_ Ho]]]]]]].
    destruct suf as [|c suf]; [exact Hsuf|]. rewrite (Ho ltac:(discriminate)) in Ep. discriminate Ep.
  - destruct Hs as [Hn _]. apply isparam_false in P.
    destruct (TreeText.new_segment_inv _ _ _ Hn) as [E|[st [en [_ [_ [_ [_ [_ NT]]]]]]]]; [|now elim NT].
    rewrite E in Ep. discriminate Ep.
Qed.

(* what one step of the chain must satisfy: the value is accepted by the parameter's constraint *)
Definition value_ok (cv : node * bytes) : Prop :=
  isparam (nseg (fst cv)) = true -> smatch (nseg (fst cv)) (snd cv) = true.

(* a walk is a chain of labels: literal labels spelled out, parameter labels replaced by
   value ++ suffix, the parameters bound in this order *)
Lemma walk_chain : forall n path ps r ps', walk n path ps r ps' ->
  (forall d, desc n d -> seg_wf (nseg d)) ->
  (r = n /\ path = [] /\ ps' = ps) \/
  exists chain, chain_to n chain r /\ path = wpath chain /\ ps' = wparams chain ps /\ Forall value_ok chain.
Proof.
  intros n path ps r ps' W. induction W as [n ps Hs|n ch path ps path1 ps1 r ps' Ich SM W IH]; intro Hwf.
  - left. now repeat split.
  - right.
    assert (Hwf' : forall d, desc ch d -> seg_wf (nseg d)) by (intros d D; apply Hwf; now apply (desc_step n ch)).
    assert (Hch : seg_wf (nseg ch)) by (apply Hwf; now apply desc_child).
    pose proof (seg_match_sound _ _ _ _ _ Hch SM) as S.
    assert (Hv : exists v, path = wpiece (nseg ch) v ++ path1 /\ ps1 = bind1 (nseg ch) v ps /\ value_ok (ch, v)).
    { unfold wpiece, bind1, value_ok, isparam. cbn [fst snd].
      destruct (styp (nseg ch)) eqn:T; cbn [stype_eqb stype_rank Nat.eqb negb].
      - destruct S as [-> ->]. exists []. split; [reflexivity|]. split; [reflexivity | discriminate].
      - destruct S as [v [-> [Hm [-> _]]]]. exists v. split; [now rewrite <- app_assoc|]. split; [reflexivity | now intros _].
      - destruct S as [v [-> [Hm [-> _]]]]. exists v. split; [now rewrite <- app_assoc|]. split; [reflexivity | now intros _].
      - destruct S as [v [-> [Hm [-> _]]]]. exists v. split; [now rewrite <- app_assoc|]. split; [reflexivity | now intros _]. }
    destruct Hv as [v [Ep [Eb Hok]]].
    destruct (IH Hwf') as [[-> [-> ->]] | [chain [C [-> [-> F]]]]].
    + exists [(ch, v)]. split; [now apply ct_one|]. split; [cbn [wpath]; exact Ep|].
      split; [cbn [wparams]; exact Eb | now constructor].
    + exists ((ch, v) :: chain). split; [now apply ct_cons|]. split; [cbn [wpath]; exact Ep|].
      split; [cbn [wparams]; now rewrite Eb | now constructor].
Qed.

(* the pattern of the last node of a chain is the concatenation of the chain's labels *)
Lemma chain_pattern : forall m chain n, chain_to m chain n -> all_nodes pat_ok m ->
  npat n = npat m ++ concat (map (fun cv => sval (nseg (fst cv))) chain).
Proof.
  intros m chain n C. induction C as [m c v Ic|m c v rest n Ic C IH]; intro Hp.
  - cbn [map concat fst]. rewrite app_nil_r. exact (all_nodes_here _ _ Hp c Ic).
  - cbn [map concat fst]. rewrite (IH (all_nodes_child _ m c Hp Ic)).
    rewrite (all_nodes_here _ _ Hp c Ic). now rewrite <- app_assoc.
Qed.

(* SOUNDNESS.  An accepted host is an instance of the answering domain, which is registered and
   not deleted: the domain is the concatenation of the labels of a chain of nodes, the normalised
   host is that text with every parameter label replaced by a value its constraint accepts followed
   by the label's literal suffix, and the reported parameters are exactly these values, bound in
   this order ('-' parameters are not reported). *)
Theorem hosts_sound : forall hist host dom ps,
  regs_first hist = true -> hosts_tokens hist = true ->
  hosts_answer (hosts_reach hist) host = Some (dom, ps) ->
  In dom (hosts_domains hist) /\ added_live hist dom /\
  exists chain n, chain_to (troot (hosts_reach hist)) chain n /\ npat n = dom /\
    dom = concat (map (fun cv => sval (nseg (fst cv))) chain) /\
    normalise_host host = wpath chain /\ ps = wparams chain [] /\ Forall value_ok chain /\
    Forall (fun cv => nbseg (hist_ic hist) (nseg (fst cv))) chain.
Proof.
  intros hist host dom ps Hr Ht A.
  pose proof (hosts_match_cases hist host) as C. cbv zeta in C.
  destruct C as [[_ [_ A']] | [Nsp [[n [h [ps' [E [D [Hne [_ A']]]]]]] | [h [_ [_ A']]]]]];
    rewrite A in A'; [discriminate A'| |discriminate A'].
  injection A' as -> ->.
  assert (I : In (npat n) (hosts_domains hist)).
  { apply (hosts_domain_node _ _ Hr Ht). exists n. split; [exact D|]. now split. }
  split; [exact I|]. split; [now apply hosts_domains_spec|].
  assert (N1 : normalise_host host <> []) by (intro X; apply Nsp; now left).
  assert (N2 : normalise_host host <> bs "*") by (intro X; apply Nsp; now right).
  pose proof (lit_reachable (bs "host") (hist_ic hist) true (hist_ops hist) Ht) as Hg.
  pose proof (C03_pat_reachable_l (bs "host") (hist_ic hist) true (hist_ops hist)) as [Hp Hroot].
  rewrite (hosts_bridge hist Hr) in E.
  destruct (dispatch_text_wf_partial _ _ _ _ _ _ _ _ _ _ (hist_tokens_wf _ Ht) E (or_intror get_ne_trace) N2 N1)
    as [W _].
  rewrite <- (hosts_bridge hist Hr) in *.
  assert (Hwf : forall d, desc (troot (hosts_reach hist)) d -> seg_wf (nseg d)).
  { intros d Dd. exact (nbseg_wf _ _ (desc_nbseg _ _ _ Hg Dd)). }
  destruct (walk_chain _ _ _ _ _ W Hwf) as [[_ [X _]] | [chain [C [Ep [Eps F]]]]]; [now elim N1|].
  exists chain, n. split; [exact C|]. split; [reflexivity|].
  split; [rewrite (chain_pattern _ _ _ C Hp), Hroot; reflexivity|].
  split; [exact Ep|]. split; [exact Eps|]. split; [exact F|].
  clear - C Hg. induction C as [m c v Ic|m c v rest n Ic C IH].
  - constructor; [|constructor]. exact (proj1 (all_nodes_here _ _ Hg) c Ic).
  - constructor; [exact (proj1 (all_nodes_here _ _ Hg) c Ic)|]. apply IH. exact (all_nodes_child _ m c Hg Ic).
Qed.

(* the parameters reported are looked up by name: the last chain element with that name *)
Corollary hosts_sound_match : forall hist host ps,
  regs_first hist = true -> hosts_tokens hist = true ->
  hosts_match_raw (hosts_reach hist) host [] = Some (true, ps) ->
  exists dom, In dom (hosts_domains hist) /\
  exists chain n, chain_to (troot (hosts_reach hist)) chain n /\ npat n = dom /\
    dom = concat (map (fun cv => sval (nseg (fst cv))) chain) /\
    normalise_host host = wpath chain /\ ps = wparams chain [] /\ Forall value_ok chain.
Proof.
  intros hist host ps Hr Ht M. apply hosts_match_answer in M. destruct M as [dom A].
  destruct (hosts_sound hist host dom ps Hr Ht A) as [I [_ [chain [n [C [Ep [Ec [Eh [Eps [F _]]]]]]]]]].
  exists dom. split; [exact I|]. exists chain, n. now repeat split.
Qed.

(* ================================================================ Part 7 : live domains are served *)

(* the node of a live domain *)
Lemma live_node_handlers : forall hist n, regs_first hist = true -> hosts_tokens hist = true ->
  desc (troot (hosts_reach hist)) n -> In (npat n) (hosts_domains hist) -> nhandlers n <> [].
Proof.
  intros hist n Hr Ht D I. apply (hosts_domain_node hist (npat n) Hr Ht) in I.
  destruct I as [n' [D' [Ep Hne]]]. rewrite (hosts_bridge hist Hr) in D, D'.
  rewrite <- (pattern_unique_reachable _ _ _ _ n' n Ht D' D Ep). exact Hne.
Qed.

(* every node below the root is the end of a chain, whatever values are chosen *)
Lemma desc_chain : forall (val : node -> bytes) m n, desc m n ->
  exists chain, chain_to m chain n /\ forall c v, In (c, v) chain -> v = val c.
Proof.
  intros val m n D. induction D as [m c Ic|m c d Ic D [chain [C Hv]]].
  - exists [(c, val c)]. split; [now apply ct_one|]. intros c0 v [X|[]]. now injection X as <- <-.
  - exists ((c, val c) :: chain). split; [now apply ct_cons|].
    intros c0 v [X|I]; [now injection X as <- <- | exact (Hv c0 v I)].
Qed.

(* the text of a chain with simple values is not empty *)
Lemma wpath_nonempty : forall ic root m chain n, chain_to m chain n -> G ic m ->
  Forall (simple_at root) chain -> wpath chain <> [].
Proof.
  intros ic root m chain n C Hg F.
  assert (H1 : forall c v rest, In c (nchildren m) -> simple_at root (c, v) -> wpath ((c, v) :: rest) <> []).
  { intros c v rest Ic Hs. cbn [wpath]. unfold wpiece.
    pose proof (proj1 (all_nodes_here _ _ Hg) c Ic) as [_ [Hne _]].
    destruct (isparam (nseg c)) eqn:P.
    - destruct (Hs P) as [_ [Hv _]]. cbn [snd] in Hv. destruct v; [now elim Hv | discriminate].
    - destruct (sval (nseg c)); [now elim Hne | discriminate]. }
  destruct C as [m c v Ic|m c v rest n Ic C].
  - apply (H1 c v [] Ic). now inversion F.
  - apply (H1 c v rest Ic). now inversion F.
Qed.

(* LIVE DOMAINS ARE SERVED.  A chain of nodes that ends at the node of a live domain, with a simple
   value at every parameter node (accepted by the constraint, not empty, sharing no byte with the
   literal text of the tree): the host spelled by the chain is accepted, by some live domain. *)
Theorem hosts_live_served : forall hist chain n host,
  regs_first hist = true -> hosts_tokens hist = true ->
  let t := hosts_reach hist in
  chain_to (troot t) chain n -> In (npat n) (hosts_domains hist) -> simple t chain ->
  normalise_host host = wpath chain -> wpath chain <> bs "*" ->
  exists dom ps, hosts_answer t host = Some (dom, ps) /\ hosts_match_raw t host [] = Some (true, ps) /\
                 In dom (hosts_domains hist).
Proof.
  intros hist chain n host Hr Ht t C I Hs Eh Nstar.
  pose proof (live_node_handlers hist n Hr Ht (chain_to_desc _ _ _ C) I) as Hne.
  pose proof (lit_reachable (bs "host") (hist_ic hist) true (hist_ops hist) Ht) as Hg.
  rewrite <- (hosts_bridge hist Hr) in Hg. fold t in Hg.
  pose proof (wpath_nonempty _ _ _ _ _ C Hg Hs) as Nnil.
  pose proof (simple_witness_served (bs "host") (hist_ic hist) true (hist_ops hist) chain n GET Ht) as S.
  cbv zeta in S. rewrite <- (hosts_bridge hist Hr) in S. fold t in S.
  destruct (S C Hne Hs Nnil Nstar (or_intror get_ne_trace)) as [ok [n' [h [ps [E Hn']]]]].
  pose proof (hosts_match_cases hist host) as K. cbv zeta in K. fold t in K. rewrite Eh in K.
  destruct K as [[[X|X] _] | [_ [[n0 [h0 [ps0 [E0 [D0 [Hne0 [M A]]]]]]] | [h0 [E0 _]]]]].
  - now elim Nnil.
  - now elim Nstar.
  - exists (npat n0), ps0. split; [exact A|]. split; [exact M|].
    apply (hosts_domain_node hist (npat n0) Hr Ht). exists n0. split; [exact D0|]. now split.
  - rewrite E in E0. discriminate E0.
Qed.

(* when, at every step, no parameter sibling standing before the chain's own child accepts the text,
   the domain's own node answers with exactly the chain's values *)
Theorem hosts_live_served_exact : forall hist chain n host,
  regs_first hist = true -> hosts_tokens hist = true ->
  let t := hosts_reach hist in
  chain_to (troot t) chain n -> In (npat n) (hosts_domains hist) -> simple t chain -> first_at (troot t) chain ->
  normalise_host host = wpath chain -> wpath chain <> bs "*" ->
  hosts_answer t host = Some (npat n, wparams chain []) /\
  hosts_match_raw t host [] = Some (true, wparams chain []).
Proof.
  intros hist chain n host Hr Ht t C I Hs Hf Eh Nstar.
  pose proof (live_node_handlers hist n Hr Ht (chain_to_desc _ _ _ C) I) as Hne.
  pose proof (lit_reachable (bs "host") (hist_ic hist) true (hist_ops hist) Ht) as Hg.
  rewrite <- (hosts_bridge hist Hr) in Hg. fold t in Hg.
  pose proof (wpath_nonempty _ _ _ _ _ C Hg Hs) as Nnil.
  pose proof (simple_witness_exact (bs "host") (hist_ic hist) true (hist_ops hist) chain n GET Ht) as S.
  cbv zeta in S. rewrite <- (hosts_bridge hist Hr) in S. fold t in S.
  destruct (S C Hne Hs Hf Nnil Nstar (or_intror get_ne_trace)) as [h405 [_ E]].
  pose proof (hosts_match_cases hist host) as K. cbv zeta in K. fold t in K. rewrite Eh in K.
  destruct K as [[[X|X] _] | [_ [[n0 [h0 [ps0 [E0 [D0 [Hne0 [M A]]]]]]] | [h0 [E0 _]]]]].
  - now elim Nnil.
  - now elim Nstar.
  - rewrite E0 in E. destruct (lookup_handler GET (nhandlers n)) as [hh|]; [|discriminate E].
    injection E as -> _ ->. split; [exact A | exact M].
  - rewrite E0 in E. destruct (lookup_handler GET (nhandlers n)); discriminate E.
Qed.

(* a live literal domain (no braces, not "*") accepts its own text, with no parameters, provided no
   parameter child of its node accepts the empty rest *)
Theorem hosts_literal_served : forall hist d n host,
  regs_first hist = true -> hosts_tokens hist = true ->
  let t := hosts_reach hist in
  desc (troot t) n -> npat n = d -> In d (hosts_domains hist) -> no_brace d -> d <> bs "*" ->
  no_empty_param n -> normalise_host host = d ->
  hosts_answer t host = Some (d, []) /\ hosts_match_raw t host [] = Some (true, []).
Proof.
  intros hist d n host Hr Ht t D Ep I Hnb Nstar Hnep Eh.
  pose proof (hosts_domain_nonempty hist d Hr I) as Nnil.
  assert (Hne : nhandlers n <> []) by (apply (live_node_handlers hist n Hr Ht D); now rewrite Ep).
  pose proof (literal_route_method (bs "host") (hist_ic hist) true (hist_ops hist) d n GET Ht) as S.
  cbv zeta in S. rewrite <- (hosts_bridge hist Hr) in S. fold t in S.
  destruct (S D Ep Hne Hnb Nnil Nstar (or_intror get_ne_trace) Hnep) as [h405 [_ E]].
  pose proof (hosts_match_cases hist host) as K. cbv zeta in K. fold t in K. rewrite Eh in K.
  destruct K as [[[X|X] _] | [_ [[n0 [h0 [ps0 [E0 [D0 [Hne0 [M A]]]]]]] | [h0 [E0 _]]]]].
  - now elim Nnil.
  - now elim Nstar.
  - rewrite E0 in E. destruct (lookup_handler GET (nhandlers n)) as [hh|]; [|discriminate E].
    injection E as -> _ ->. rewrite Ep in A. split; [exact A | exact M].
  - rewrite E0 in E. destruct (lookup_handler GET (nhandlers n)); discriminate E.
Qed.

(* ================================================================ examples *)

(* two interceptors registered first; eight literal domains (seven different first bytes: the root
   gets a first-byte index), a named, a regexp and an interceptor wildcard under example.com, a
   domain with two parameters; upper-case spellings in Add and Delete; one deletion *)
Definition exr_adds : list hop :=
  [HReg (bs "digit") match_digit; HReg (bs "word") match_word;
   HAdd (bs "Example.com"); HAdd (bs "api.example.com"); HAdd (bs "WWW.example.com");
   HAdd (bs "static.example.com"); HAdd (bs "admin.example.org"); HAdd (bs "localhost");
   HAdd (bs "blog.example.net"); HAdd (bs "::1");
   HAdd (bs "{sub}.example.com"); HAdd (bs "{id:\d+}.example.com"); HAdd (bs "{n:digit}.shard.example.com");
   HAdd (bs "{Tenant}.{region:word}.cloud.example.com")].
Definition exr_hist : list hop := (exr_adds ++ [HDel (bs "WWW.Example.COM")])%list.

Definition exr_hosts : list bytes :=
  map bs ["example.com"; "EXAMPLE.com:443"; "api.example.com"; "www.example.com"; "WWW.EXAMPLE.COM:80";
          "x.example.com"; "42.example.com"; "7.shard.example.com"; "a7.shard.example.com";
          "acme.eu.cloud.example.com"; "[::1]:8080"; "[::1]"; "localhost:x"; "nope.org"; ""; "*";
          "admin.example.org"]%string.

Example exr_premises :
  regs_first exr_adds = true /\ no_del exr_adds = true /\ hosts_tokens exr_adds = true /\
  hosts_canonb exr_adds = true /\ regs_first exr_hist = true /\ hosts_tokens exr_hist = true /\
  no_del exr_hist = false /\
  length (hist_ic exr_adds) = 2 /\ length (nindexes (troot (hosts_reach exr_adds))) = 7 /\
  length (nchildren (troot (hosts_reach exr_adds))) = 11.
Proof. vm_compute. repeat split; reflexivity. Qed.

(* every Add was accepted; Delete "WWW.Example.COM" removes "www.example.com" *)
Example exr_domains :
  hosts_domains exr_adds =
    map bs ["example.com"; "api.example.com"; "www.example.com"; "static.example.com"; "admin.example.org";
            "localhost"; "blog.example.net"; "::1"; "{sub}.example.com"; "{id:\d+}.example.com";
            "{n:digit}.shard.example.com"; "{tenant}.{region:word}.cloud.example.com"]%string /\
  hosts_domains exr_hist =
    map bs ["example.com"; "api.example.com"; "static.example.com"; "admin.example.org";
            "localhost"; "blog.example.net"; "::1"; "{sub}.example.com"; "{id:\d+}.example.com";
            "{n:digit}.shard.example.com"; "{tenant}.{region:word}.cloud.example.com"]%string /\
  length (hosts_table exr_adds) = 12.
Proof. vm_compute. repeat split; reflexivity. Qed.

Definition exr_some (d : String.string) (ps : list (String.string * String.string)) : option (bytes * params) :=
  Some (bs d, map (fun kv => (bs (fst kv), bs (snd kv))) ps).

(* what Hosts.Match answers before the deletion ... *)
Example exr_answers_before :
  map (hosts_answer (hosts_reach exr_adds)) exr_hosts =
  [exr_some "example.com" []; exr_some "example.com" []; exr_some "api.example.com" [];
   exr_some "www.example.com" []; exr_some "www.example.com" [];
   exr_some "{sub}.example.com" [("sub", "x")]; exr_some "{id:\d+}.example.com" [("id", "42")];
   exr_some "{n:digit}.shard.example.com" [("n", "7")]; exr_some "{sub}.example.com" [("sub", "a7.shard")];
   exr_some "{sub}.example.com" [("sub", "acme.eu.cloud")];
   exr_some "::1" []; exr_some "::1" []; None; None; None; None; exr_some "admin.example.org" []]%string.
Proof. vm_compute. reflexivity. Qed.

(* ... and after it: "www.example.com" now falls to the wildcard, everything else is as before *)
Example exr_answers_after :
  map (hosts_answer (hosts_reach exr_hist)) exr_hosts =
  [exr_some "example.com" []; exr_some "example.com" []; exr_some "api.example.com" [];
   exr_some "{sub}.example.com" [("sub", "www")]; exr_some "{sub}.example.com" [("sub", "www")];
   exr_some "{sub}.example.com" [("sub", "x")]; exr_some "{id:\d+}.example.com" [("id", "42")];
   exr_some "{n:digit}.shard.example.com" [("n", "7")]; exr_some "{sub}.example.com" [("sub", "a7.shard")];
   exr_some "{sub}.example.com" [("sub", "acme.eu.cloud")];
   exr_some "::1" []; exr_some "::1" []; None; None; None; None; exr_some "admin.example.org" []]%string.
Proof. vm_compute. reflexivity. Qed.

(* Hosts.Match against the resolver, computed: the answer is one of the resolver's answers and names a
   live domain; a rejection has no resolution ("" and "*" apart) *)
Definition exr_agree (hist : list hop) (host : bytes) : bool :=
  let host' := normalise_host host in
  let outs := resolve (hist_ic hist) (hosts_table hist) host' in
  match hosts_match_raw (hosts_reach hist) host [] with
  | Some (true, ps) => existsb (fun o => mem (fst o) (hosts_domains hist) && ps_eqb (snd o) ps) outs
  | Some (false, ps) => match ps with [] => true | _ => false end &&
                        (beqb host' [] || beqb host' (bs "*") || match outs with [] => true | _ => false end)
  | None => false
  end.

Example exr_all_agree : forallb (exr_agree exr_adds) exr_hosts = true.
Proof. vm_compute. reflexivity. Qed.

(* "either may win": the documented procedure allows two answers, Hosts.Match gives the first *)
Example exr_either_may_win :
  map fst (resolve (hist_ic exr_adds) (hosts_table exr_adds) (bs "acme.eu.cloud.example.com")) =
    [bs "{sub}.example.com"; bs "{tenant}.{region:word}.cloud.example.com"] /\
  hosts_match_raw (hosts_reach exr_adds) (bs "Acme.EU.cloud.example.com:8443") [] =
    Some (true, [(bs "sub", bs "acme.eu.cloud")]).
Proof. vm_compute. split; reflexivity. Qed.

(* the theorems applied *)
Example exr_refines : forall host,
  let host' := normalise_host host in
  match hosts_match_raw (hosts_reach exr_adds) host [] with
  | Some (true, ps) => ~ special host' /\
      exists d, In d (hosts_domains exr_adds) /\ In (d, ps) (resolve (hist_ic exr_adds) (hosts_table exr_adds) host')
  | Some (false, ps) => ps = [] /\ (special host' \/ resolve (hist_ic exr_adds) (hosts_table exr_adds) host' = [])
  | None => False
  end.
Proof.
  intro host. destruct exr_premises as [A [B [C [D _]]]]. exact (hosts_refines_resolver exr_adds host A B C D).
Qed.

Example exr_frame : forall host dom ps,
  hosts_answer (hosts_reach exr_adds) host = Some (dom, ps) -> dom <> bs "www.example.com" ->
  hosts_match_raw (hosts_reach exr_hist) host [] = Some (true, ps).
Proof.
  intros host dom ps A Nd. destruct exr_premises as [R [_ [T _]]].
  destruct (hosts_delete_frame exr_adds (bs "WWW.Example.COM") host R T) as [F _].
  exact (proj2 (F dom ps A Nd)).
Qed.

Example exr_gone : forall host dom ps,
  hosts_answer (hosts_reach exr_hist) host = Some (dom, ps) -> dom <> bs "www.example.com".
Proof.
  intros host dom ps A. destruct exr_premises as [R [_ [T _]]].
  exact (hosts_deleted_gone exr_adds (bs "WWW.Example.COM") host dom ps R T A).
Qed.

Example exr_sound : forall host ps, hosts_match_raw (hosts_reach exr_hist) host [] = Some (true, ps) ->
  exists dom, In dom (hosts_domains exr_hist) /\
  exists chain n, chain_to (troot (hosts_reach exr_hist)) chain n /\ npat n = dom /\
    dom = concat (map (fun cv => sval (nseg (fst cv))) chain) /\
    normalise_host host = wpath chain /\ ps = wparams chain [] /\ Forall value_ok chain.
Proof.
  intros host ps M. destruct exr_premises as [_ [_ [_ [_ [R [T _]]]]]].
  exact (hosts_sound_match exr_hist host ps R T M).
Qed.

(* live domains are served: the chains of "{sub}.example.com" (value "zz"), of
   "{tenant}.{region:word}.cloud.example.com" (values "qq", "zz") and of the literal "api.example.com" *)
Notation exr_root := (troot (hosts_reach exr_hist)).
Definition exr_sub : node := TreeNames.kid 8 exr_root.
Definition exr_tenant : node := TreeNames.kid 9 exr_root.
Definition exr_region : node := TreeNames.kid 0 exr_tenant.
Definition exr_a : node := TreeNames.kid 0 exr_root.
Definition exr_api : node := TreeNames.kid 0 exr_a.
Definition exr_ch_sub : list (node * bytes) := [(exr_sub, bs "zz")].
Definition exr_ch_region : list (node * bytes) := [(exr_tenant, bs "qq"); (exr_region, bs "zz")].

Example exr_chain_texts :
  wpath exr_ch_sub = bs "zz.example.com" /\ wparams exr_ch_sub [] = [(bs "sub", bs "zz")] /\
  npat exr_sub = bs "{sub}.example.com" /\
  wpath exr_ch_region = bs "qq.zz.cloud.example.com" /\
  wparams exr_ch_region [] = [(bs "tenant", bs "qq"); (bs "region", bs "zz")] /\
  npat exr_region = bs "{tenant}.{region:word}.cloud.example.com" /\
  npat exr_api = bs "api.example.com".
Proof. vm_compute. repeat split; reflexivity. Qed.

Example exr_chain_premises :
  chain_to exr_root exr_ch_sub exr_sub /\ In (npat exr_sub) (hosts_domains exr_hist) /\
  simple (hosts_reach exr_hist) exr_ch_sub /\ first_at exr_root exr_ch_sub /\
  chain_to exr_root exr_ch_region exr_region /\ In (npat exr_region) (hosts_domains exr_hist) /\
  simple (hosts_reach exr_hist) exr_ch_region /\
  desc exr_root exr_api /\ In (npat exr_api) (hosts_domains exr_hist) /\ no_brace (npat exr_api) /\
  no_empty_param exr_api.
Proof.
  assert (Isub : In exr_sub (nchildren exr_root)) by (vm_compute; do 8 right; left; reflexivity).
  assert (Iten : In exr_tenant (nchildren exr_root)) by (vm_compute; do 9 right; left; reflexivity).
  assert (Ireg : In exr_region (nchildren exr_tenant)) by (vm_compute; left; reflexivity).
  assert (Ia : In exr_a (nchildren exr_root)) by (vm_compute; left; reflexivity).
  assert (Iapi : In exr_api (nchildren exr_a)) by (vm_compute; left; reflexivity).
  split; [exact (ct_one _ _ _ Isub)|].
  split; [vm_compute; do 7 right; left; reflexivity|].
  split; [apply (simpleb_sound 6); vm_compute; reflexivity|].
  split.
  { apply (first_at_pos exr_root exr_sub (bs "zz") [] 8); [vm_compute; reflexivity | vm_compute; reflexivity|].
    apply no_empty_param_b. vm_compute. reflexivity. }
  split; [exact (ct_cons _ _ _ _ _ Iten (ct_one _ _ _ Ireg))|].
  split; [vm_compute; do 10 right; left; reflexivity|].
  split; [apply (simpleb_sound 6); vm_compute; reflexivity|].
  split; [exact (desc_step _ _ _ Ia (desc_child _ _ Iapi))|].
  split; [vm_compute; right; left; reflexivity|].
  split.
  { intros c Ic. vm_compute in Ic.
    repeat (destruct Ic as [<-|Ic]; [split; discriminate|]). destruct Ic. }
  apply no_empty_param_b. vm_compute. reflexivity.
Qed.

Example exr_served :
  hosts_match_raw (hosts_reach exr_hist) (bs "ZZ.Example.com:8080") [] = Some (true, [(bs "sub", bs "zz")]) /\
  (exists dom ps, hosts_answer (hosts_reach exr_hist) (bs "qq.zz.cloud.example.com") = Some (dom, ps) /\
                  In dom (hosts_domains exr_hist)) /\
  hosts_match_raw (hosts_reach exr_hist) (bs "API.example.com") [] = Some (true, []).
Proof.
  destruct exr_premises as [_ [_ [_ [_ [R [T _]]]]]].
  destruct exr_chain_premises as [C1 [I1 [S1 [F1 [C2 [I2 [S2 [D3 [I3 [B3 E3]]]]]]]]]].
  destruct exr_chain_texts as [P1 [W1 [_ [P2 _]]]].
  split; [|split].
  - rewrite <- W1.
    apply (hosts_live_served_exact exr_hist exr_ch_sub exr_sub (bs "ZZ.Example.com:8080") R T C1 I1 S1 F1);
      [rewrite P1; vm_compute; reflexivity | rewrite P1; discriminate].
  - destruct (hosts_live_served exr_hist exr_ch_region exr_region (bs "qq.zz.cloud.example.com") R T C2 I2 S2)
      as [dom [ps [A [_ I]]]]; [rewrite P2; vm_compute; reflexivity | rewrite P2; discriminate|].
    exists dom, ps. split; [exact A | exact I].
  - apply (hosts_literal_served exr_hist (npat exr_api) exr_api (bs "API.example.com") R T D3 eq_refl I3 B3);
      [vm_compute; discriminate | exact E3 | vm_compute; reflexivity].
Qed.

(* ================================================================ the two special hosts *)

(* for every other host: accepted iff the documented procedure has an answer *)
Corollary hosts_accepts_iff_resolves : forall hist host,
  regs_first hist = true -> no_del hist = true -> hosts_tokens hist = true -> hosts_canonb hist = true ->
  ~ special (normalise_host host) ->
  ((exists ps, hosts_match_raw (hosts_reach hist) host [] = Some (true, ps)) <->
   resolve (hist_ic hist) (hosts_table hist) (normalise_host host) <> []).
Proof.
  intros hist host Hr Hd Ht Hc Nsp.
  pose proof (hosts_refines_resolver hist host Hr Hd Ht Hc) as R. cbv zeta in R.
  destruct (hosts_match_raw (hosts_reach hist) host []) as [[[|] ps]|]; [| |destruct R].
  - destruct R as [_ [d [_ I]]]. split; [|intros _; now exists ps].
    intros _ E. rewrite E in I. destruct I.
  - destruct R as [_ [Sp|E]]; [now elim Nsp|]. split; [intros [q Hq]; discriminate Hq|].
    intro N. now elim N.
Qed.

(* "" and "*" are never accepted, although the procedure resolves them when a domain "*" or a
   domain that is one parameter is registered: the carve-out in the refinement theorem is needed,
   and a live domain "*" does not accept the host "*" *)
Definition cx_special_hist : list hop := [HAdd (bs "*"); HAdd (bs "{any}")].

Example cx_special_facts :
  regs_first cx_special_hist = true /\ no_del cx_special_hist = true /\
  hosts_tokens cx_special_hist = true /\ hosts_canonb cx_special_hist = true /\
  hosts_domains cx_special_hist = [bs "*"; bs "{any}"] /\
  hosts_match_raw (hosts_reach cx_special_hist) (bs "*") [] = Some (false, []) /\
  hosts_match_raw (hosts_reach cx_special_hist) [] [] = Some (false, []) /\
  resolve (hist_ic cx_special_hist) (hosts_table cx_special_hist) (normalise_host (bs "*")) = [(bs "*", [])] /\
  resolve (hist_ic cx_special_hist) (hosts_table cx_special_hist) (normalise_host []) = [(bs "{any}", [(bs "any", [])])].
Proof. vm_compute. repeat split; reflexivity. Qed.

Theorem hosts_resolver_unrestricted_refuted :
  ~ (forall hist host ps,
       regs_first hist = true -> no_del hist = true -> hosts_tokens hist = true -> hosts_canonb hist = true ->
       hosts_match_raw (hosts_reach hist) host [] = Some (false, ps) ->
       resolve (hist_ic hist) (hosts_table hist) (normalise_host host) = []).
Proof.
  intro H. destruct cx_special_facts as [A [B [C [D [_ [M [_ [R _]]]]]]]].
  specialize (H cx_special_hist (bs "*") [] A B C D M). rewrite R in H. discriminate H.
Qed.

(* ================================================================ the definitions, spelled out *)

Lemma hist_ops_cons : forall op hist, hist_ops (op :: hist) =
  (match op with
   | HAdd d => [OAdd (to_lower d) (HUser []) [] [GET]]
   | HDel d => [ORemove (to_lower d) []]
   | HReg _ _ => []
   end ++ hist_ops hist)%list.
Proof. intros op hist. destruct op; reflexivity. Qed.

Lemma hist_ic_reg : forall hist rule f,
  hist_ic (hist ++ [HReg rule f]) = (rule, f) :: adelete rule (hist_ic hist).
Proof. intros hist rule f. unfold hist_ic. rewrite fold_left_app. reflexivity. Qed.

Lemma hist_ic_is_tic : forall hist, tic (hosts_reach hist) = hist_ic hist.
Proof.
  intro hist. induction hist as [|op hist IH] using rev_ind; [reflexivity|].
  rewrite hosts_reach_snoc. destruct op as [d|d|rule f].
  - rewrite (hist_ic_snoc hist (HAdd d) eq_refl). cbn [hstep].
    destruct (hosts_add (hosts_reach hist) d) as [t'|e|s|] eqn:E; cbn [hkeep]; try exact IH.
    unfold hosts_add in E. apply tree_add_get_inv in E. destruct E as [segs [root' [_ ->]]]. exact IH.
  - rewrite (hist_ic_snoc hist (HDel d) eq_refl). cbn [hstep].
    destruct (hosts_delete (hosts_reach hist) d) as [t'|e|s|] eqn:E; cbn [hkeep]; try exact IH.
    unfold hosts_delete in E. apply tree_remove_inv in E.
    destruct E as [->|[root' [removed [_ ->]]]]; exact IH.
  - rewrite hist_ic_reg. cbn [hstep hosts_register tic]. now rewrite IH.
Qed.

Lemma regs_first_spec : forall hist, regs_first hist = true <->
  exists regs ops, hist = (regs ++ ops)%list /\ forallb is_reg regs = true /\ no_reg ops = true.
Proof.
  induction hist as [|op hist IH].
  - split; [|reflexivity]. intros _. exists [], []. now repeat split.
  - destruct op as [d|d|rule f].
    + cbn [regs_first]. split.
      * intro H. exists [], (HAdd d :: hist). now repeat split.
      * intros [regs [ops [E [Hr Ho]]]]. destruct regs as [|r regs].
        -- cbn [app] in E. now rewrite E.
        -- injection E as <- _. discriminate Hr.
    + cbn [regs_first]. split.
      * intro H. exists [], (HDel d :: hist). now repeat split.
      * intros [regs [ops [E [Hr Ho]]]]. destruct regs as [|r regs].
        -- cbn [app] in E. now rewrite E.
        -- injection E as <- _. discriminate Hr.
    + cbn [regs_first]. rewrite IH. split.
      * intros [regs [ops [-> [Hr Ho]]]]. exists (HReg rule f :: regs), ops. now repeat split.
      * intros [regs [ops [E [Hr Ho]]]]. destruct regs as [|r regs].
        -- cbn [app] in E. rewrite <- E in Ho. discriminate Ho.
        -- injection E as _ ->. cbn [forallb] in Hr. apply andb_true_iff in Hr.
           exists regs, ops. split; [reflexivity|]. split; [exact (proj2 Hr) | exact Ho].
Qed.

Lemma hosts_answer_spec : forall t host dom ps, hosts_answer t host = Some (dom, ps) <->
  exists n h, tree_handler t GET (normalise_host host) [] = HFound true (Some n) h ps /\ npat n = dom.
Proof.
  intros t host dom ps. unfold hosts_answer. split.
  - destruct (tree_handler t GET (normalise_host host) []) as [[|] [n|] h q|s]; try discriminate.
    intro H. injection H as <- <-. now exists n, h.
  - intros [n [h [-> <-]]]. reflexivity.
Qed.

Lemma hosts_tables_agree : forall hist d, regs_first hist = true -> hosts_tokens hist = true ->
  (In d (map fst (hosts_table hist)) <-> In d (hosts_domains hist)).
Proof.
  intros hist d Hr Ht. rewrite in_map_iff. split.
  - intros [[p ts] [E I]]. cbn [fst] in E. subst p. exact (proj1 (proj1 (hosts_table_spec hist d ts Hr Ht) I)).
  - intro I. destruct (proj1 (hosts_domains_spec hist d Hr) I) as [pre [d0 [post [E [El [_ _]]]]]].
    assert (Id : In (HAdd d0) hist) by (rewrite E; apply in_or_app; right; now left).
    destruct (proj1 (hosts_tokens_spec hist) Ht d0 Id) as [ts T]. rewrite El in T.
    exists (d, ts). split; [reflexivity|]. apply (hosts_table_spec hist d ts Hr Ht). now split.
Qed.

Lemma value_ok_spec : forall c v, value_ok (c, v) <-> (isparam (nseg c) = true -> smatch (nseg c) v = true).
Proof. intros c v. reflexivity. Qed.
