(* The specification's tokenizer (Spec/Table.v : tokens) against the model's parser
   (Model/Syntax.v : split_string / new_segment / split_pieces / split).

   Every well-formed pattern has the shape
        l0 ++ "{" b1 "}" l1 ++ "{" b2 "}" l2 ...            (l_i, b_i brace free)
   ([l0 ++ render cs] below, a chunk being a pair (b_i, l_i)).  On that shape split_string
   returns exactly  l0 (when non empty), "{b1}l1", "{b2}l2", ...  and new_segment on a piece
   "{b}l" reads the same name / rule / '-' flag as the tokenizer does.

   FINDINGS recorded here
   - new_segment refuses a piece longer than 32767 bytes (Err "toolong"); [tokens] has no length
     limit.  C10_tokens_split_agree and C10_nonstrict_is_instantiate are therefore FALSE as
     first stated (toolong_counterexample); they hold with the hypothesis length p <= 32767.
   - [tokens] is stricter than [split] on "{-}" / "{-:rule}" (empty name after the '-'): split
     accepts them with an empty, ignored name (dash_only_accepted). *)
From Coq Require Import String.
From Mux Require Import Model.Bytes Model.Regex Model.Context Model.Syntax Model.Tree Spec.Table
  Proofs.BytesFacts.
From Mux Require Proofs.ParseTotal Proofs.TreeNames Proofs.Misc1 Proofs.TreeSafe Proofs.MatchSound Proofs.TreeText.

(* ================================================================ Part 0 : small facts *)

Definition NB (l : bytes) : Prop := ~ In 123 l /\ ~ In 125 l.
Definition nobr (l : bytes) : bool := forallb (fun c => negb (N.eqb c 123) && negb (N.eqb c 125)) l.

Lemma nobr_NB : forall l, nobr l = true -> NB l.
Proof.
  induction l as [|c l IH]; intro H; [split; intros []|].
  cbn [nobr forallb] in H. apply andb_true_iff in H. destruct H as [Hc Hl].
  apply andb_true_iff in Hc. destruct Hc as [H1 H2].
  apply negb_true_iff in H1. apply negb_true_iff in H2.
  apply N.eqb_neq in H1. apply N.eqb_neq in H2.
  destruct (IH Hl) as [I1 I2].
  split; intros [E|I]; auto.
Qed.

Lemma NB_nil : NB [].
Proof. split; intros []. Qed.

Lemma NB_cons : forall c l, c <> 123 -> c <> 125 -> NB l -> NB (c :: l).
Proof. intros c l H1 H2 [I1 I2]. split; intros [E|I]; auto. Qed.

Lemma span_until_some : forall c s a b, span_until c s = Some (a, b) -> s = a ++ c :: b /\ ~ In c a.
Proof.
  intros c. induction s as [|x s IH]; intros a b H; cbn [span_until] in H; [discriminate|].
  destruct (N.eqb_spec x c) as [->|N].
  - injection H as <- <-. split; [reflexivity | intros []].
  - destruct (span_until c s) as [[a' b']|]; [|discriminate]. injection H as <- <-.
    destruct (IH a' b' eq_refl) as [-> NI]. split; [reflexivity|].
    intros [E|I]; [congruence | exact (NI I)].
Qed.

Lemma span_until_none : forall c s, span_until c s = None -> ~ In c s.
Proof.
  intros c. induction s as [|x s IH]; intros H; [intros []|]. cbn [span_until] in H.
  destruct (N.eqb_spec x c) as [->|N]; [discriminate|].
  destruct (span_until c s) as [[a' b']|]; [discriminate|].
  intros [E|I]; [congruence | exact (IH eq_refl I)].
Qed.

Lemma existsb_eqb_false : forall c s, existsb (N.eqb c) s = false -> ~ In c s.
Proof.
  intros c. induction s as [|x s IH]; intros H; [intros []|]. cbn [existsb] in H.
  apply orb_false_iff in H. destruct H as [H1 H2]. apply N.eqb_neq in H1.
  intros [E|I]; [congruence | exact (IH H2 I)].
Qed.

Lemma ib_notin : forall s c, ~ In c s -> index_byte s c = None.
Proof. exact TreeNames.index_byte_notIn. Qed.

Lemma ib_app_notin : forall a c b, ~ In c a -> index_byte (a ++ c :: b) c = Some (length a).
Proof.
  induction a as [|x a IH]; intros c b NI; cbn [app index_byte length].
  - now rewrite N.eqb_refl.
  - destruct (N.eqb_spec x c) as [E|N]; [elim NI; now left|].
    rewrite IH; [reflexivity|]. intro I. apply NI. now right.
Qed.

Lemma ib_app_notin2 : forall a c b, ~ In c a ->
  index_byte (a ++ b) c = match index_byte b c with Some i => Some (length a + i)%nat | None => None end.
Proof.
  induction a as [|x a IH]; intros c b NI; cbn [app index_byte length].
  - destruct (index_byte b c); reflexivity.
  - destruct (N.eqb_spec x c) as [E|N]; [elim NI; now left|].
    rewrite IH by (intro I; apply NI; now right).
    destruct (index_byte b c); reflexivity.
Qed.

Lemma firstn_len_app : forall (a b : bytes) n, n = length a -> firstn n (a ++ b) = a.
Proof.
  intros a b n ->. rewrite firstn_app, Nat.sub_diag, firstn_all. cbn [firstn]. apply app_nil_r.
Qed.

Lemma skipn_len_app : forall (a b : bytes) n, n = length a -> skipn n (a ++ b) = b.
Proof.
  intros a b n ->. rewrite skipn_app, Nat.sub_diag, skipn_all. reflexivity.
Qed.

Lemma slice_mid : forall site val a m c lo hi, val = a ++ m ++ c -> lo = length a ->
  hi = (length a + length m)%nat -> slice_or_panic site val lo hi = Ok m.
Proof.
  intros site val a m c lo hi -> -> ->.
  rewrite ParseTotal.slice_ok; [|lia|rewrite !app_length; lia].
  rewrite (skipn_len_app a (m ++ c)) by reflexivity.
  rewrite (firstn_len_app m c) by lia. reflexivity.
Qed.

Lemma bind_ok_inv : forall {A B} (r : res A) (f : A -> res B) y,
  bind r f = Ok y -> exists x, r = Ok x /\ f x = Ok y.
Proof. intros A B r f y H. destruct r as [x| | |]; try discriminate. now exists x. Qed.

Lemma ends_with_notin : forall s c, ~ In c s -> ends_with s c = false.
Proof.
  intros s c NI. unfold ends_with, last_byte. destruct s as [|x s]; [reflexivity|].
  destruct (nth_error (x :: s) (length (x :: s) - 1)) as [y|] eqn:E; [|reflexivity].
  apply nth_error_In in E. apply N.eqb_neq. intro Ey. subst y. exact (NI E).
Qed.

Lemma ends_with_app : forall a l c, l <> [] -> ends_with (a ++ l) c = ends_with l c.
Proof.
  intros a l c Hl. unfold ends_with, last_byte.
  assert (Hal : a ++ l <> []) by (destruct a; [exact Hl | discriminate]).
  assert (Ll : (0 < length l)%nat) by (destruct l; [congruence | cbn; lia]).
  rewrite app_length.
  replace (length a + length l - 1)%nat with (length a + (length l - 1))%nat by lia.
  rewrite nth_error_app2 by lia.
  replace (length a + (length l - 1) - length a)%nat with (length l - 1)%nat by lia.
  destruct (a ++ l); [congruence|]. destruct l; [congruence|]. reflexivity.
Qed.

(* ================================================================ Part 1 : the tokenizer *)

Definition chunk := (bytes * bytes)%type.                 (* token body, literal that follows *)
Definition chunk_text (c : chunk) : bytes := 123 :: fst c ++ 125 :: snd c.
Fixpoint render (cs : list chunk) : bytes :=
  match cs with [] => [] | c :: cs' => chunk_text c ++ render cs' end.

Definition body_nr (body : bytes) : bytes * bytes :=
  match span_until 58 body with Some (n, r) => (n, r) | None => (body, []) end.
Definition dash (name0 : bytes) : bool * bytes :=
  match name0 with 45 :: n => (true, n) | _ => (false, name0) end.
Definition b_ign (body : bytes) : bool := fst (dash (fst (body_nr body))).
Definition b_name (body : bytes) : bytes := snd (dash (fst (body_nr body))).
Definition b_rule (body : bytes) : bytes := snd (body_nr body).
Definition tok_par (body : bytes) : tok := TPar (b_ign body) (b_name body) (b_rule body).

Definition lit_tok (l : bytes) (ts : list tok) : list tok :=
  match l with [] => ts | _ => TLit l :: ts end.

Fixpoint toks (cs : list chunk) : list tok :=
  match cs with [] => [] | c :: cs' => tok_par (fst c) :: lit_tok (snd c) (toks cs') end.

Definition chunk_nb (c : chunk) : Prop := NB (fst c) /\ NB (snd c).
Definition chunk_ok (c : chunk) : Prop := chunk_nb c /\ b_name (fst c) <> [].

Lemma flush_lit : forall lr ts, flush lr ts = lit_tok (rev lr) ts.
Proof.
  intros lr ts. destruct lr as [|c lr]; [reflexivity|]. cbn [flush rev].
  unfold lit_tok. destruct (rev lr ++ [c]) eqn:E; [|reflexivity].
  apply app_eq_nil in E. destruct E as [_ E]. discriminate E.
Qed.

Lemma tok_scan_inv : forall f s lr ts, tok_scan f s lr = Some ts ->
  exists l0 cs, s = l0 ++ render cs /\ NB l0 /\ Forall chunk_ok cs /\
                ts = lit_tok (rev lr ++ l0) (toks cs).
Proof.
  induction f as [|f IH]; intros s lr ts H; [discriminate H|].
  cbn [tok_scan] in H. destruct s as [|c s'].
  - injection H as <-. exists [], []. split; [reflexivity|]. split; [exact NB_nil|].
    split; [constructor|]. rewrite app_nil_r. apply flush_lit.
  - destruct (N.eqb_spec c 125) as [E125|N125]; [discriminate H|].
    destruct (N.eqb_spec c 123) as [E123|N123].
    + subst c. destruct (span_until 125 s') as [[body rest]|] eqn:SP; [|discriminate H].
      destruct (existsb (N.eqb 123) body) eqn:EX; [discriminate H|].
      apply span_until_some in SP. destruct SP as [-> NI125].
      apply existsb_eqb_false in EX.
      assert (TP : forall K : bool -> bytes -> bytes -> option (list tok),
                (let '(name0, rule) := match span_until 58 body with
                                       | Some (n, r) => (n, r) | None => (body, []) end in
                 let '(ign, name) := match name0 with 45 :: n => (true, n) | _ => (false, name0) end in
                 K ign name rule) = K (b_ign body) (b_name body) (b_rule body)).
      { intro K. unfold b_ign, b_name, b_rule, body_nr.
        destruct (span_until 58 body) as [[n r]|]; cbn [fst snd]; unfold dash.
        - destruct (match n with 45 :: n0 => (true, n0) | _ => (false, n) end) as [i nm]. reflexivity.
        - destruct (match body with 45 :: n0 => (true, n0) | _ => (false, body) end) as [i nm]. reflexivity. }
      rewrite (TP (fun ign name rule => match name with
                   | [] => None
                   | _ => match tok_scan f rest [] with
                          | Some ts0 => Some (flush lr (TPar ign name rule :: ts0))
                          | None => None end end)) in H.
      destruct (b_name body) as [|n0 nm] eqn:BN; [discriminate H|].
      destruct (tok_scan f rest []) as [ts0|] eqn:TS; [|discriminate H].
      injection H as <-.
      destruct (IH _ _ _ TS) as [l1 [cs [-> [NB1 [OK ->]]]]].
      exists [], ((body, l1) :: cs). split.
      { cbn [app render chunk_text fst snd]. now rewrite <- app_assoc. }
      split; [exact NB_nil|]. split.
      { constructor; [|exact OK]. split; [split; [split; assumption | exact NB1]|].
        cbn [fst]. rewrite BN. discriminate. }
      rewrite app_nil_r, flush_lit. cbn [toks fst snd rev app]. unfold tok_par. rewrite BN. reflexivity.
    + destruct (IH _ _ _ H) as [l0 [cs [-> [NB0 [OK ->]]]]].
      exists (c :: l0), cs. split; [reflexivity|]. split; [now apply NB_cons|].
      split; [exact OK|]. cbn [rev]. now rewrite <- app_assoc.
Qed.

Lemma no_adjacent_lit : forall l X, no_adjacent (lit_tok l X) = true -> no_adjacent X = true.
Proof.
  intros l X H. destruct l as [|c l]; [exact H|]. unfold lit_tok in H.
  destruct X as [|x X]; [reflexivity|]. cbn [no_adjacent is_par andb negb] in H. exact H.
Qed.

Lemma no_adjacent_tl : forall a Y, no_adjacent (a :: Y) = true -> no_adjacent Y = true.
Proof.
  intros a Y H. destruct Y as [|y Y]; [reflexivity|]. cbn [no_adjacent] in H.
  apply andb_true_iff in H. exact (proj2 H).
Qed.

Fixpoint gaps_ok (cs : list chunk) : Prop :=
  match cs with
  | c :: ((_ :: _) as cs') => snd c <> [] /\ gaps_ok cs'
  | _ => True
  end.

Lemma no_adjacent_gaps : forall cs, no_adjacent (toks cs) = true -> gaps_ok cs.
Proof.
  induction cs as [|c cs IH]; intro H; [exact I|].
  destruct cs as [|c' cs']; [exact I|]. cbn [gaps_ok]. split.
  - intro E. cbn [toks] in H. rewrite E in H. cbn [lit_tok no_adjacent is_par tok_par andb negb] in H.
    unfold tok_par in H. cbn [is_par andb negb] in H. discriminate H.
  - apply IH. cbn [toks] in H. apply no_adjacent_tl in H. apply no_adjacent_lit in H. exact H.
Qed.

Lemma par_names_lit : forall l X, par_names (lit_tok l X) = par_names X.
Proof. intros l X. destruct l; reflexivity. Qed.
Lemma capture_names_lit : forall l X, capture_names (lit_tok l X) = capture_names X.
Proof. intros l X. destruct l; reflexivity. Qed.

Definition c_name (c : chunk) : bytes := b_name (fst c).
Definition c_ign (c : chunk) : bool := b_ign (fst c).
Definition c_rule (c : chunk) : bytes := b_rule (fst c).

Lemma par_names_toks : forall cs, par_names (toks cs) = map c_name cs.
Proof.
  induction cs as [|c cs IH]; [reflexivity|]. cbn [toks map]. unfold tok_par. cbn [par_names].
  now rewrite par_names_lit, IH.
Qed.

Lemma capture_names_toks : forall cs,
  capture_names (toks cs) = map c_name (filter (fun c => negb (c_ign c)) cs).
Proof.
  induction cs as [|c cs IH]; [reflexivity|]. cbn [toks map filter]. unfold tok_par, c_ign.
  destruct (b_ign (fst c)); cbn [capture_names negb map]; now rewrite capture_names_lit, IH.
Qed.

(* the decomposition of a well-formed pattern *)
Lemma tokens_shape : forall p ts, tokens p = Some ts ->
  exists l0 cs, p = l0 ++ render cs /\ p <> [] /\ NB l0 /\ Forall chunk_ok cs /\ gaps_ok cs /\
                ts = lit_tok l0 (toks cs) /\ nodupb (map c_name cs) = true.
Proof.
  intros p ts H. unfold tokens in H. destruct p as [|b p]; [discriminate H|].
  destruct (tok_scan (S (length (b :: p))) (b :: p) []) as [ts0|] eqn:TS; [|discriminate H].
  destruct (no_adjacent ts0 && nodupb (par_names ts0)) eqn:C; [|discriminate H].
  injection H as <-. apply andb_true_iff in C. destruct C as [NA ND].
  destruct (tok_scan_inv _ _ _ _ TS) as [l0 [cs [E [NB0 [OK ->]]]]]. cbn [rev app] in *.
  exists l0, cs. split; [exact E|]. split; [discriminate|]. split; [exact NB0|].
  split; [exact OK|]. split; [apply no_adjacent_gaps; exact (no_adjacent_lit _ _ NA)|].
  split; [reflexivity|]. now rewrite par_names_lit, par_names_toks in ND.
Qed.

(* ================================================================ Part 2 : split_string *)

(* entering a token: [str] starts with '{' *)
Definition go (f : nat) (str : bytes) (acc : list bytes) : list bytes :=
  match index_byte str 125 with
  | None => rev (str :: acc)
  | Some e => split_string_loop f str e acc
  end.

Lemma loop_step : forall f pre l y acc, ~ In 123 l ->
  split_string_loop (S f) (pre ++ 125 :: l ++ 123 :: y) (length pre) acc =
  go f (123 :: y) ((pre ++ 125 :: l) :: acc).
Proof.
  intros f pre l y acc NI. cbn [split_string_loop].
  rewrite (skipn_len_app pre) by reflexivity.
  cbn [index_byte]. change (N.eqb 125 123) with false. cbv iota.
  rewrite (ib_app_notin l 123 y NI).
  change (Nat.ltb 0 (S (length l))) with true. cbv iota.
  replace (pre ++ 125 :: l ++ 123 :: y) with ((pre ++ 125 :: l) ++ 123 :: y)
    by (rewrite <- app_assoc; reflexivity).
  rewrite (firstn_len_app (pre ++ 125 :: l)) by (rewrite app_length; cbn [length]; lia).
  rewrite (skipn_len_app (pre ++ 125 :: l)) by (rewrite app_length; cbn [length]; lia).
  reflexivity.
Qed.

Lemma loop_end : forall f pre rest acc, ~ In 123 rest ->
  split_string_loop (S f) (pre ++ 125 :: rest) (length pre) acc = rev ((pre ++ 125 :: rest) :: acc).
Proof.
  intros f pre rest acc NI. cbn [split_string_loop].
  rewrite (skipn_len_app pre) by reflexivity.
  cbn [index_byte]. change (N.eqb 125 123) with false. cbv iota.
  rewrite (ib_notin rest 123 NI). reflexivity.
Qed.

Lemma go_enter : forall f b rest acc, ~ In 125 b ->
  go f (123 :: b ++ 125 :: rest) acc = split_string_loop f (123 :: b ++ 125 :: rest) (S (length b)) acc.
Proof.
  intros f b rest acc NI. unfold go. cbn [index_byte]. change (N.eqb 123 125) with false. cbv iota.
  rewrite (ib_app_notin b 125 rest NI). reflexivity.
Qed.

Lemma go_step : forall f b l y acc, ~ In 125 b -> ~ In 123 l ->
  go (S f) (123 :: b ++ 125 :: l ++ 123 :: y) acc = go f (123 :: y) ((123 :: b ++ 125 :: l) :: acc).
Proof.
  intros f b l y acc N1 N2. rewrite go_enter by exact N1.
  exact (loop_step f (123 :: b) l y acc N2).
Qed.

Lemma go_end : forall f b l acc, ~ In 125 b -> ~ In 123 l ->
  go (S f) (123 :: b ++ 125 :: l) acc = rev ((123 :: b ++ 125 :: l) :: acc).
Proof.
  intros f b l acc N1 N2. rewrite go_enter by exact N1.
  exact (loop_end f (123 :: b) l acc N2).
Qed.

Lemma render_cons : forall c cs,
  render (c :: cs) = 123 :: fst c ++ 125 :: snd c ++ render cs.
Proof.
  intros c cs. cbn [render chunk_text app]. rewrite <- app_assoc. reflexivity.
Qed.

Lemma go_render_end : forall cs c f acc, chunk_nb c -> Forall chunk_nb cs -> (length cs < f)%nat ->
  go f (render (c :: cs)) acc = rev acc ++ map chunk_text (c :: cs).
Proof.
  induction cs as [|c' cs IH]; intros c f acc [[_ Nb] [Nl _]] Hcs Hf.
  - destruct f as [|f]; [cbn in Hf; lia|]. rewrite render_cons. cbn [render]. rewrite app_nil_r.
    rewrite go_end by assumption. reflexivity.
  - destruct f as [|f]; [cbn in Hf; lia|]. inversion Hcs as [|x y Hc' Hcs']; subst.
    rewrite render_cons. rewrite (render_cons c' cs).
    rewrite go_step by assumption. rewrite <- render_cons.
    rewrite IH; [|exact Hc'|exact Hcs'|cbn [length] in Hf; lia].
    cbn [rev map]. rewrite <- app_assoc. reflexivity.
Qed.

(* a well-shaped prefix followed by anything that starts with '{' *)
Lemma go_render : forall cs f y acc, Forall chunk_nb cs ->
  go (length cs + f) (render cs ++ 123 :: y) acc = go f (123 :: y) (rev (map chunk_text cs) ++ acc).
Proof.
  induction cs as [|c cs IH]; intros f y acc Hcs; [reflexivity|].
  inversion Hcs as [|x z [[_ Nb] [Nl _]] Hcs']; subst.
  cbn [length Nat.add]. rewrite render_cons.
  replace ((123 :: fst c ++ 125 :: snd c ++ render cs) ++ 123 :: y)
    with (123 :: fst c ++ 125 :: snd c ++ render cs ++ 123 :: y)
    by (cbn [app]; rewrite <- !app_assoc; cbn [app]; rewrite <- !app_assoc; reflexivity).
  destruct cs as [|c' cs'].
  - cbn [render app length Nat.add]. rewrite go_step by assumption. reflexivity.
  - rewrite (render_cons c' cs').
    replace ((123 :: fst c' ++ 125 :: snd c' ++ render cs') ++ 123 :: y)
      with (123 :: (fst c' ++ 125 :: snd c' ++ render cs') ++ 123 :: y) by reflexivity.
    rewrite go_step by assumption.
    replace (123 :: (fst c' ++ 125 :: snd c' ++ render cs') ++ 123 :: y)
      with (render (c' :: cs') ++ 123 :: y) by (rewrite render_cons; reflexivity).
    rewrite IH by exact Hcs'.
    cbn [map rev]. rewrite <- !app_assoc. reflexivity.
Qed.

Definition lit_piece (l0 : bytes) : list bytes := match l0 with [] => [] | _ => [l0] end.

Lemma rev_lit_piece : forall l0, rev (lit_piece l0) = lit_piece l0.
Proof. intros [|c l]; reflexivity. Qed.

Lemma split_string_lit : forall l0, ~ In 123 l0 -> split_string l0 = [l0].
Proof.
  intros l0 NI. unfold split_string. cbn [split_string_loop skipn].
  rewrite (ib_notin l0 123 NI). reflexivity.
Qed.

Lemma split_string_enter : forall l0 y, ~ In 123 l0 ->
  split_string (l0 ++ 123 :: y) = go (S (length (l0 ++ 123 :: y))) (123 :: y) (lit_piece l0).
Proof.
  intros l0 y NI. unfold split_string. cbn [split_string_loop skipn].
  rewrite (ib_app_notin l0 123 y NI). destruct l0 as [|c l0].
  - reflexivity.
  - change (Nat.ltb 0 (length (c :: l0))) with true. cbv iota. rewrite Nat.add_0_r.
    rewrite (firstn_len_app (c :: l0)) by reflexivity.
    rewrite (skipn_len_app (c :: l0)) by reflexivity. reflexivity.
Qed.

Lemma length_render : forall cs, (length cs <= length (render cs))%nat.
Proof.
  induction cs as [|c cs IH]; [cbn; lia|]. rewrite render_cons. cbn [length].
  rewrite !app_length. cbn [length]. rewrite app_length. lia.
Qed.

Lemma split_string_shape : forall l0 cs, NB l0 -> Forall chunk_nb cs -> l0 ++ render cs <> [] ->
  split_string (l0 ++ render cs) = lit_piece l0 ++ map chunk_text cs.
Proof.
  intros l0 cs [N0 _] Hcs Hne. destruct cs as [|c cs].
  - cbn [render map] in *. rewrite app_nil_r in *. rewrite split_string_lit by exact N0.
    destruct l0; [congruence | reflexivity].
  - inversion Hcs as [|x y Hc Hcs']; subst.
    assert (E : render (c :: cs) = 123 :: (fst c ++ 125 :: snd c ++ render cs))
      by apply render_cons.
    rewrite E. rewrite split_string_enter by exact N0. rewrite <- E.
    rewrite go_render_end; [|exact Hc|exact Hcs'|].
    + now rewrite rev_lit_piece.
    + rewrite app_length. pose proof (length_render (c :: cs)) as L. cbn [length] in L. cbn [length]. lia.
Qed.

(* the first piece produced from [str] at a '}' position: a prefix of [str] that goes beyond it *)
Lemma loop_first : forall f str e acc, nth_error str e = Some 125 ->
  exists k qs, split_string_loop f str e acc = rev acc ++ firstn k str :: qs /\ (e < k)%nat.
Proof.
  induction f as [|f IH]; intros str e acc He.
  - exists (length str), []. cbn [split_string_loop rev]. rewrite firstn_all.
    split; [reflexivity|]. apply nth_error_Some. congruence.
  - assert (Le : (e < length str)%nat) by (apply nth_error_Some; congruence).
    assert (Hsk : exists tl, skipn e str = 125 :: tl).
    { rewrite <- (firstn_skipn e str) in He. rewrite nth_error_app2 in He by (rewrite firstn_length; lia).
      rewrite firstn_length in He. replace (e - Nat.min e (length str))%nat with O in He by lia.
      destruct (skipn e str) as [|x tl]; [discriminate He|]. cbn in He. injection He as ->. now exists tl. }
    destruct Hsk as [tl Hsk]. cbn [split_string_loop]. rewrite Hsk. cbn [index_byte].
    change (N.eqb 125 123) with false. cbv iota.
    destruct (index_byte tl 123) as [i|].
    + change (Nat.ltb 0 (S i)) with true. cbv iota.
      destruct (index_byte (skipn (S i + e) str) 125) as [e'|] eqn:E'.
      * destruct (IH (skipn (S i + e) str) e' (firstn (S i + e) str :: acc)
                     (ParseTotal.index_byte_nth _ _ _ E')) as [k' [qs' [-> _]]].
        exists (S i + e)%nat, (firstn k' (skipn (S i + e) str) :: qs'). split; [|lia].
        cbn [rev]. rewrite <- app_assoc. reflexivity.
      * exists (S i + e)%nat, [skipn (S i + e) str]. split; [|lia].
        cbn [rev]. rewrite <- !app_assoc. reflexivity.
    + exists (length str), []. cbn [rev]. rewrite firstn_all. split; [reflexivity | exact Le].
Qed.

Lemma go_first : forall f c s acc, exists q qs,
  go f (c :: s) acc = rev acc ++ q :: qs /\ first_byte q = Some c.
Proof.
  intros f c s acc. unfold go. destruct (index_byte (c :: s) 125) as [e|] eqn:E.
  - destruct (loop_first f (c :: s) e acc (ParseTotal.index_byte_nth _ _ _ E)) as [k [qs [-> Lk]]].
    exists (firstn k (c :: s)), qs. split; [reflexivity|]. destruct k as [|k]; [lia | reflexivity].
  - exists (c :: s), []. split; reflexivity.
Qed.

(* ================================================================ Part 3 : new_segment *)

Definition name_ok (ign : bool) (name : bytes) : bool :=
  negb (negb ign && negb (match name with [] => false | _ => forallb (fun c => is_word c || N.eqb c 95) name end)).

(* what new_segment answers on the piece "{body}lit", in terms of what the tokenizer reads *)
Definition chunk_seg (ic : icpts) (val : bytes) (ign : bool) (name rule l : bytes) : res segment :=
  if N.ltb max_int16 (N.of_nat (length val)) then Err (bs "toolong") else
  match rule with
  | [] => Ok {| sval := val; sname := name; srule := []; ssuffix := l; styp := TNamed;
                samb := calc_amb ign [] l; sendpoint := ends_with val 125; signore := ign;
                sre := REmpty; smatch := fun _ => true |}
  | _ =>
    match alookup rule ic with
    | Some f => Ok {| sval := val; sname := name; srule := rule; ssuffix := l; styp := TIcpt;
                      samb := calc_amb ign rule l; sendpoint := ends_with val 125; signore := ign;
                      sre := REmpty; smatch := f |}
    | None =>
      if negb ign && negb (match name with [] => false | _ => forallb (fun c => is_word c || N.eqb c 95) name end)
      then Err (bs "regexp") else
      match re_parse rule with
      | POk r => Ok {| sval := val; sname := name; srule := rule; ssuffix := l; styp := TRegexp;
                       samb := calc_amb ign rule l; sendpoint := false; signore := ign; sre := r;
                       smatch := re_full r |}
      | PErr => Err (bs "regexp")
      | PUnsup => Unsup
      end
    end
  end.

Lemma clean_name_dash : forall n0, n0 <> [] -> clean_name n0 = Ok (dash n0).
Proof.
  intros n0 Hne. destruct n0 as [|c n]; [congruence|]. unfold clean_name, dash.
  destruct c as [|p]; [reflexivity|].
  repeat (destruct p as [p|p|]; try reflexivity).
Qed.

Lemma dash_nonempty : forall n0, snd (dash n0) <> [] -> n0 <> [].
Proof. intros n0 H E. subst n0. apply H. reflexivity. Qed.

Lemma new_segment_chunk : forall ic b l, NB b -> NB l -> b_name b <> [] ->
  new_segment ic (123 :: b ++ 125 :: l) =
  chunk_seg ic (123 :: b ++ 125 :: l) (b_ign b) (b_name b) (b_rule b) l.
Proof.
  intros ic b l [Nb3 Nb5] [Nl3 Nl5] Hname.
  set (val := 123 :: b ++ 125 :: l).
  unfold new_segment, chunk_seg.
  destruct (N.ltb max_int16 (N.of_nat (length val))); [reflexivity|].
  assert (I1 : index_byte val 123 = Some O) by reflexivity.
  assert (I2 : index_byte val 125 = Some (S (length b))).
  { unfold val. cbn [index_byte]. change (N.eqb 123 125) with false. cbv iota.
    now rewrite (ib_app_notin b 125 l Nb5). }
  rewrite I1, I2. cbv zeta.
  assert (Lval : length val = S (length b + S (length l))).
  { unfold val. cbn [length]. rewrite app_length. reflexivity. }
  assert (Suf : forall site, slice_or_panic site val (S (S (length b))) (length val) = Ok l).
  { intro site. apply (slice_mid site val (123 :: b ++ [125]) l []).
    - unfold val. cbn [app]. rewrite <- app_assoc, app_nil_r. reflexivity.
    - cbn [length]. rewrite app_length. cbn [length]. lia.
    - rewrite Lval. cbn [length]. rewrite app_length. cbn [length]. lia. }
  unfold b_name, b_ign, b_rule, body_nr in *.
  destruct (span_until 58 b) as [[n0 r]|] eqn:SP; cbn [fst snd] in *.
  - (* "{n0:r}" *)
    apply span_until_some in SP. destruct SP as [Eb Nn0].
    pose proof (dash_nonempty _ Hname) as Hn0.
    assert (Ln0 : (0 < length n0)%nat) by (destruct n0; [congruence | cbn; lia]).
    assert (Lb : length b = (length n0 + S (length r))%nat) by (rewrite Eb, app_length; reflexivity).
    assert (I3 : index_byte val 58 = Some (S (length n0))).
    { unfold val. cbn [index_byte]. change (N.eqb 123 58) with false. cbv iota.
      rewrite Eb, <- app_assoc. cbn [app]. now rewrite (ib_app_notin n0 58 _ Nn0). }
    rewrite I3.
    assert (Nm1 : forall site, slice_or_panic site val 1 (S (length n0)) = Ok n0).
    { intro site. apply (slice_mid site val [123] n0 (58 :: r ++ 125 :: l)).
      - unfold val. rewrite Eb, <- app_assoc. reflexivity.
      - reflexivity.
      - reflexivity. }
    replace (Nat.ltb (S (length b)) 0) with false by reflexivity.
    replace (Nat.eqb 1 (S (length b))) with false by (symmetry; apply Nat.eqb_neq; lia).
    replace (Nat.eqb 1 (S (length n0))) with false by (symmetry; apply Nat.eqb_neq; lia).
    rewrite andb_false_r. cbn [orb].
    replace (Nat.ltb (S (length b)) (S (length n0))) with false by (symmetry; apply Nat.ltb_ge; lia).
    rewrite orb_false_r.
    destruct r as [|c r].
    + (* "{name:}" : named *)
      replace (Nat.eqb (S (S (length n0))) (S (length b))) with true
        by (symmetry; apply Nat.eqb_eq; cbn [length] in Lb; lia).
      rewrite (ParseTotal.slice_ok _ val 1 (S (length b))) by lia. cbn [bind].
      replace (Nat.ltb (S (length n0)) (S (length b))) with true
        by (symmetry; apply Nat.ltb_lt; cbn [length] in Lb; lia).
      rewrite Nm1. cbn [bind]. rewrite Suf. cbn [bind].
      rewrite (clean_name_dash n0 Hn0). cbn [bind].
      destruct (dash n0) as [ign name]. reflexivity.
    + replace (Nat.eqb (S (S (length n0))) (S (length b))) with false
        by (symmetry; apply Nat.eqb_neq; cbn [length] in Lb; lia).
      rewrite (slice_mid "NewSegment:rule" val (123 :: n0 ++ [58]) (c :: r) (125 :: l)
                 (S (S (length n0))) (S (length b))).
      2:{ unfold val. rewrite Eb. cbn [app]. rewrite <- !app_assoc. reflexivity. }
      2:{ cbn [length]. rewrite app_length. cbn [length]. lia. }
      2:{ cbn [length]. rewrite app_length. cbn [length]. cbn [length] in Lb. lia. }
      cbn [bind]. rewrite Nm1. cbn [bind].
      rewrite (clean_name_dash n0 Hn0). cbn [bind].
      destruct (dash n0) as [ign name]. cbn [fst snd]. rewrite Suf. cbn [bind]. reflexivity.
  - (* "{name}" : no ':' inside the braces *)
    apply span_until_none in SP.
    pose proof (dash_nonempty _ Hname) as Hb.
    assert (Lb : (0 < length b)%nat) by (destruct b; [congruence | cbn; lia]).
    assert (Nm0 : forall site, slice_or_panic site val 1 (S (length b)) = Ok b).
    { intro site. apply (slice_mid site val [123] b (125 :: l)); reflexivity. }
    assert (I3 : index_byte val 58 =
                 match index_byte l 58 with Some i => Some (S (length b + S i)) | None => None end).
    { unfold val. cbn [index_byte]. change (N.eqb 123 58) with false. cbv iota.
      rewrite (ib_app_notin2 b 58 (125 :: l) SP). cbn [index_byte]. change (N.eqb 125 58) with false.
      cbv iota. destruct (index_byte l 58); reflexivity. }
    rewrite I3.
    replace (Nat.ltb (S (length b)) 0) with false by reflexivity.
    replace (Nat.eqb 1 (S (length b))) with false by (symmetry; apply Nat.eqb_neq; lia).
    cbn [orb].
    destruct (index_byte l 58) as [i|].
    + replace (Nat.eqb 1 (S (length b + S i))) with false by (symmetry; apply Nat.eqb_neq; lia).
      rewrite andb_false_r. cbv iota.
      replace (Nat.ltb (S (length b)) (S (length b + S i))) with true by (symmetry; apply Nat.ltb_lt; lia).
      rewrite orb_true_r. cbv iota.
      rewrite Nm0. cbn [bind].
      replace (Nat.ltb (S (length b + S i)) (S (length b))) with false by (symmetry; apply Nat.ltb_ge; lia).
      cbn [bind]. rewrite Suf. cbn [bind].
      rewrite (clean_name_dash b Hb). cbn [bind].
      destruct (dash b) as [ign name]. reflexivity.
    + cbv iota. rewrite Nm0. cbn [bind]. rewrite Suf. cbn [bind].
      rewrite (clean_name_dash b Hb). cbn [bind].
      destruct (dash b) as [ign name]. reflexivity.
Qed.

(* the literal pieces *)
Lemma new_segment_lit : forall ic l0, NB l0 ->
  new_segment ic l0 = if N.ltb max_int16 (N.of_nat (length l0)) then Err (bs "toolong")
                      else Ok (string_seg l0).
Proof.
  intros ic l0 [N3 _]. unfold new_segment. rewrite (ib_notin l0 123 N3). reflexivity.
Qed.

Definition seg_agrees (ic : icpts) (s : segment) : Prop :=
  match kind_of ic (srule s) with
  | KNamed => styp s = TNamed
  | KIcpt f => styp s = TIcpt /\ smatch s = f
  | KRegexp r => styp s = TRegexp /\ sre s = r /\ smatch s = re_full r
  | _ => False
  end.

Lemma chunk_seg_ok : forall ic val ign name rule l s, chunk_seg ic val ign name rule l = Ok s ->
  sval s = val /\ sname s = name /\ srule s = rule /\ ssuffix s = l /\ signore s = ign /\
  Misc1.param_seg s = true /\ seg_agrees ic s /\ (N.of_nat (length val) <= max_int16)%N.
Proof.
  intros ic val ign name rule l s H. unfold chunk_seg in H.
  destruct (N.ltb max_int16 (N.of_nat (length val))) eqn:TL; [discriminate H|].
  apply N.ltb_ge in TL.
  destruct rule as [|c rule].
  - injection H as <-. cbn. repeat split; try reflexivity. exact TL.
  - destruct (alookup (c :: rule) ic) as [f|] eqn:AL.
    + injection H as <-. unfold seg_agrees, kind_of. cbn [srule]. rewrite AL. cbn.
      repeat split; try reflexivity. exact TL.
    + destruct (negb ign && _); [discriminate H|].
      destruct (re_parse (c :: rule)) as [r| |] eqn:RP; try discriminate H.
      injection H as <-. unfold seg_agrees, kind_of. cbn [srule]. rewrite AL, RP. cbn.
      repeat split; try reflexivity. exact TL.
Qed.

(* when new_segment accepts the piece *)
Lemma chunk_seg_accepts : forall ic val ign name rule l,
  (N.of_nat (length val) <= max_int16)%N ->
  (rule = [] \/ (exists f, alookup rule ic = Some f) \/
   (exists r, re_parse rule = POk r /\
              (ign = true \/ (name <> [] /\ forallb (fun c => is_word c || N.eqb c 95) name = true)))) ->
  exists s, chunk_seg ic val ign name rule l = Ok s.
Proof.
  intros ic val ign name rule l TL H. unfold chunk_seg.
  replace (N.ltb max_int16 (N.of_nat (length val))) with false by (symmetry; now apply N.ltb_ge).
  destruct rule as [|c rule]; [eexists; reflexivity|].
  destruct H as [H|[[f H]|[r [RP H]]]]; [discriminate H | rewrite H; eexists; reflexivity|].
  destruct (alookup (c :: rule) ic); [eexists; reflexivity|].
  rewrite RP.
  replace (negb ign && negb match name with [] => false | _ :: _ => forallb (fun c0 => is_word c0 || N.eqb c0 95) name end)
    with false; [eexists; reflexivity|].
  symmetry. destruct H as [->|[Hn Hf]]; [reflexivity|].
  destruct name; [congruence|]. rewrite Hf. apply andb_false_r.
Qed.

(* ================================================================ Part 4 : split_pieces, split *)

Definition toolong (s : bytes) : bool := N.ltb max_int16 (N.of_nat (length s)).

Lemma toolong_false : forall s, (N.of_nat (length s) <= max_int16)%N -> toolong s = false.
Proof. intros s H. unfold toolong. apply N.ltb_ge. exact H. Qed.

Definition seg_chunk (ic : icpts) (s : segment) (c : chunk) : Prop :=
  chunk_seg ic (chunk_text c) (c_ign c) (c_name c) (c_rule c) (snd c) = Ok s.

Lemma new_segment_chunk_text : forall ic c, chunk_ok c ->
  new_segment ic (chunk_text c) = chunk_seg ic (chunk_text c) (c_ign c) (c_name c) (c_rule c) (snd c).
Proof. intros ic [b l] [[Hb Hl] Hn]. apply new_segment_chunk; assumption. Qed.

Lemma mem_false_all : forall x L, (forall n, In n L -> beqb n x = false) -> mem x L = false.
Proof.
  intros x L. induction L as [|a L IH]; intro H; [reflexivity|]. cbn [mem].
  rewrite beqb_sym, (H a (or_introl eq_refl)). cbn [orb]. apply IH. intros n I. apply H. now right.
Qed.

Lemma mem_false_In : forall x L n, mem x L = false -> In n L -> beqb n x = false.
Proof.
  intros x L n. induction L as [|a L IH]; intros H I; [destruct I|]. cbn [mem] in H.
  apply orb_false_iff in H. destruct H as [H1 H2].
  destruct I as [->|I]; [now rewrite beqb_sym | exact (IH H2 I)].
Qed.

Lemma ends_with_chunk : forall c, chunk_nb c -> snd c <> [] -> ends_with (chunk_text c) 125 = false.
Proof.
  intros [b l] [_ [_ N5]] Hl. unfold chunk_text. cbn [fst snd] in *.
  replace (123 :: b ++ 125 :: l) with ((123 :: b ++ [125]) ++ l)
    by (cbn [app]; rewrite <- app_assoc; reflexivity).
  rewrite ends_with_app by exact Hl. now apply ends_with_notin.
Qed.

Lemma ends_with_snoc : forall a c, ends_with (a ++ [c]) c = true.
Proof.
  intros a c. unfold ends_with, last_byte. destruct (a ++ [c]) eqn:E.
  - apply app_eq_nil in E. destruct E as [_ E]. discriminate E.
  - rewrite <- E. rewrite app_length. cbn [length].
    rewrite nth_error_app2 by lia. replace (length a + 1 - 1 - length a)%nat with O by lia.
    cbn [nth_error]. now rewrite N.eqb_refl.
Qed.

(* one step of split_pieces on a literal piece / on a token piece *)
Lemma sp_lit_step : forall ic l0 ss, NB l0 -> l0 <> [] ->
  split_pieces ic (l0 :: ss) false [] =
  if toolong l0 then Err (bs "toolong")
  else do rest <- split_pieces ic ss false []; Ok (string_seg l0 :: rest).
Proof.
  intros ic l0 ss N0 Hne. cbn [split_pieces]. destruct l0 as [|c l0]; [congruence|].
  cbn [first_byte andb]. rewrite (new_segment_lit ic (c :: l0) N0). fold (toolong (c :: l0)).
  destruct (toolong (c :: l0)); [reflexivity|]. cbn [bind].
  change (negb (stype_eqb (styp (string_seg (c :: l0))) TString)) with false. cbn [andb].
  rewrite (ends_with_notin (c :: l0) 125 (proj2 N0)). reflexivity.
Qed.

Lemma sp_chunk_step : forall ic c ss flag names, chunk_ok c ->
  split_pieces ic (chunk_text c :: ss) flag names =
  if flag then Err (bs "adjacent") else
  do seg <- chunk_seg ic (chunk_text c) (c_ign c) (c_name c) (c_rule c) (snd c);
  if mem (c_name c) names then Err (bs "dupname") else
  do rest <- split_pieces ic ss (ends_with (chunk_text c) 125) (c_name c :: names);
  Ok (seg :: rest).
Proof.
  intros ic c ss flag names Hc. cbn [split_pieces].
  change (first_byte (chunk_text c)) with (Some 123). cbv beta iota. change (N.eqb 123 123) with true.
  rewrite andb_true_r. destruct flag; [reflexivity|].
  rewrite (new_segment_chunk_text ic c Hc).
  destruct (chunk_seg ic (chunk_text c) (c_ign c) (c_name c) (c_rule c) (snd c)) as [s|e|e|] eqn:CS;
    cbn [bind]; try reflexivity.
  destruct (chunk_seg_ok _ _ _ _ _ _ _ CS) as [_ [Hn [_ [_ [_ [P _]]]]]].
  unfold Misc1.param_seg in P. rewrite P, Hn. cbn [andb]. reflexivity.
Qed.

Lemma sp_chunks_inv : forall ic cs flag names segs, Forall chunk_ok cs ->
  split_pieces ic (map chunk_text cs) flag names = Ok segs ->
  Forall2 (seg_chunk ic) segs cs /\ nodupb (map c_name cs) = true /\
  (forall n, In n (map c_name cs) -> mem n names = false).
Proof.
  intros ic cs. induction cs as [|c cs IH]; intros flag names segs Hcs H.
  - cbn [map split_pieces] in H. injection H as <-.
    split; [constructor|]. split; [reflexivity | intros n []].
  - inversion Hcs as [|x y Hc Hcs']; subst. cbn [map] in H. rewrite sp_chunk_step in H by exact Hc.
    destruct flag; [discriminate H|].
    apply bind_ok_inv in H. destruct H as [seg [CS H]].
    destruct (mem (c_name c) names) eqn:M; [discriminate H|].
    apply bind_ok_inv in H. destruct H as [rest [SP H]]. injection H as <-.
    destruct (IH _ _ _ Hcs' SP) as [F2 [ND DJ]].
    split; [constructor; assumption|]. split.
    + cbn [map nodupb]. rewrite ND, andb_true_r. apply negb_true_iff. apply mem_false_all.
      intros n I. specialize (DJ n I). cbn [mem] in DJ. apply orb_false_iff in DJ. exact (proj1 DJ).
    + intros n [<-|I]; [exact M|]. specialize (DJ n I). cbn [mem] in DJ.
      apply orb_false_iff in DJ. exact (proj2 DJ).
Qed.

Fixpoint dupfree (names : list bytes) (cs : list chunk) : bool :=
  match cs with
  | [] => true
  | c :: cs' => negb (mem (c_name c) names) && dupfree (c_name c :: names) cs'
  end.

Lemma dupfree_true : forall cs names, nodupb (map c_name cs) = true ->
  (forall n, In n (map c_name cs) -> mem n names = false) -> dupfree names cs = true.
Proof.
  induction cs as [|c cs IH]; intros names ND DJ; [reflexivity|].
  cbn [dupfree]. rewrite (DJ (c_name c) (or_introl eq_refl)). cbn [negb andb].
  cbn [map nodupb] in ND. apply andb_true_iff in ND. destruct ND as [M ND].
  apply negb_true_iff in M. apply IH; [exact ND|].
  intros n I. cbn [mem]. rewrite (mem_false_In _ _ _ M I). cbn [orb]. apply DJ. now right.
Qed.

Lemma gaps_ok_tl : forall c cs, gaps_ok (c :: cs) -> gaps_ok cs.
Proof. intros c cs H. destruct cs as [|c' cs']; [exact I | exact (proj2 H)]. Qed.

Lemma sp_chunks_res : forall ic cs flag names, Forall chunk_ok cs -> gaps_ok cs ->
  (cs = [] \/ flag = false) -> (forall c, In c cs -> exists s, seg_chunk ic s c) ->
  if dupfree names cs then exists segs, split_pieces ic (map chunk_text cs) flag names = Ok segs
  else split_pieces ic (map chunk_text cs) flag names = Err (bs "dupname").
Proof.
  intros ic cs. induction cs as [|c cs IH]; intros flag names Hcs G Hf Hs.
  - cbn. now exists [].
  - inversion Hcs as [|x y Hc Hcs']; subst.
    destruct Hf as [Hf | ->]; [discriminate Hf|].
    cbn [map]. rewrite sp_chunk_step by exact Hc.
    destruct (Hs c (or_introl eq_refl)) as [s CS]. unfold seg_chunk in CS. rewrite CS. cbn [bind].
    cbn [dupfree]. destruct (mem (c_name c) names); cbn [negb andb]; [reflexivity|].
    assert (Hf' : cs = [] \/ ends_with (chunk_text c) 125 = false).
    { destruct cs as [|c' cs']; [now left|]. right. apply ends_with_chunk; [exact (proj1 Hc)|].
      exact (proj1 G). }
    specialize (IH (ends_with (chunk_text c) 125) (c_name c :: names) Hcs' (gaps_ok_tl _ _ G) Hf'
                   (fun c0 I0 => Hs c0 (or_intror I0))).
    destruct (dupfree (c_name c :: names) cs).
    + destruct IH as [rest ->]. cbn [bind]. now eexists.
    + rewrite IH. reflexivity.
Qed.

(* ---------------------------------------------------------------- the relation of the theorems *)

(* a literal piece is the literal token; a parameter segment is its parameter token, followed
   by the literal token of its suffix when there is one *)
Inductive toks_of_segs : list segment -> list tok -> Prop :=
| TS_nil : toks_of_segs [] []
| TS_lit : forall l segs ts, l <> [] -> toks_of_segs segs ts ->
    toks_of_segs (string_seg l :: segs) (TLit l :: ts)
| TS_par : forall s segs ts, Misc1.param_seg s = true -> toks_of_segs segs ts ->
    toks_of_segs (s :: segs) (TPar (signore s) (sname s) (srule s) :: lit_tok (ssuffix s) ts).

Definition lit_segs (l0 : bytes) : list segment := match l0 with [] => [] | _ => [string_seg l0] end.

Lemma F2_toks : forall ic segs cs, Forall2 (seg_chunk ic) segs cs -> toks_of_segs segs (toks cs).
Proof.
  intros ic segs cs F. induction F as [|s c segs cs CS F IH]; [constructor|].
  destruct (chunk_seg_ok _ _ _ _ _ _ _ CS) as [_ [Hn [Hr [Hs [Hi [P _]]]]]].
  cbn [toks]. unfold tok_par. unfold c_name, c_rule, c_ign in *.
  rewrite <- Hn, <- Hr, <- Hs, <- Hi. now apply TS_par.
Qed.

Lemma toks_lit_segs : forall l0 segs ts, toks_of_segs segs ts ->
  toks_of_segs (lit_segs l0 ++ segs) (lit_tok l0 ts).
Proof.
  intros l0 segs ts H. destruct l0 as [|c l0]; [exact H|]. cbn [lit_segs lit_tok app].
  apply TS_lit; [discriminate | exact H].
Qed.

Lemma F2_names : forall ic segs cs, Forall2 (seg_chunk ic) segs cs ->
  map sname (filter Misc1.param_seg segs) = map c_name cs /\
  map sname (filter (fun s => Misc1.param_seg s && negb (signore s)) segs) =
    map c_name (filter (fun c => negb (c_ign c)) cs).
Proof.
  intros ic segs cs F. induction F as [|s c segs cs CS F [IH1 IH2]]; [split; reflexivity|].
  destruct (chunk_seg_ok _ _ _ _ _ _ _ CS) as [_ [Hn [_ [_ [Hi [P _]]]]]].
  cbn [filter]. rewrite P, Hi. cbn [andb]. split.
  - cbn [map]. now rewrite Hn, IH1.
  - destruct (c_ign c); cbn [negb map]; [exact IH2|]. now rewrite Hn, IH2.
Qed.

Lemma F2_agrees : forall ic segs cs, Forall2 (seg_chunk ic) segs cs ->
  Forall (fun s => Misc1.param_seg s = true /\ seg_agrees ic s) segs.
Proof.
  intros ic segs cs F. induction F as [|s c segs cs CS F IH]; [constructor|].
  destruct (chunk_seg_ok _ _ _ _ _ _ _ CS) as [_ [_ [_ [_ [_ [P [A _]]]]]]].
  constructor; [split; assumption | exact IH].
Qed.

Lemma chunk_ok_nb : forall cs, Forall chunk_ok cs -> Forall chunk_nb cs.
Proof. intros cs H. eapply Forall_impl; [|exact H]. intros c [Hc _]. exact Hc. Qed.

(* split on a pattern of the tokenizer's shape *)
Lemma split_shape : forall ic l0 cs, NB l0 -> Forall chunk_ok cs -> l0 ++ render cs <> [] ->
  split ic (l0 ++ render cs) =
  match l0 with
  | [] => split_pieces ic (map chunk_text cs) false []
  | _ => if toolong l0 then Err (bs "toolong")
         else do rest <- split_pieces ic (map chunk_text cs) false []; Ok (string_seg l0 :: rest)
  end.
Proof.
  intros ic l0 cs N0 Hcs Hne. unfold split.
  destruct (l0 ++ render cs) as [|x p] eqn:E; [congruence|]. rewrite <- E.
  rewrite split_string_shape; [|exact N0|now apply chunk_ok_nb|now rewrite E].
  destruct l0 as [|c l0]; [reflexivity|]. cbn [lit_piece app].
  apply sp_lit_step; [exact N0 | discriminate].
Qed.

Lemma split_ok_shape : forall ic l0 cs segs, NB l0 -> Forall chunk_ok cs -> l0 ++ render cs <> [] ->
  split ic (l0 ++ render cs) = Ok segs ->
  exists rest, segs = lit_segs l0 ++ rest /\ Forall2 (seg_chunk ic) rest cs /\
               nodupb (map c_name cs) = true.
Proof.
  intros ic l0 cs segs N0 Hcs Hne H. rewrite split_shape in H by assumption.
  destruct l0 as [|c l0].
  - destruct (sp_chunks_inv _ _ _ _ _ Hcs H) as [F [ND _]]. exists segs. now split.
  - destruct (toolong (c :: l0)); [discriminate H|].
    apply bind_ok_inv in H. destruct H as [rest [SP H]]. injection H as <-.
    destruct (sp_chunks_inv _ _ _ _ _ Hcs SP) as [F [ND _]]. exists rest. now split.
Qed.

Lemma In_lit_tok : forall t l X, In t X -> In t (lit_tok l X).
Proof. intros t l X H. destruct l; [exact H | now right]. Qed.

Lemma In_toks : forall c cs, In c cs -> In (tok_par (fst c)) (toks cs).
Proof.
  intros c cs. induction cs as [|c' cs IH]; intros I; [destruct I|]. cbn [toks].
  destruct I as [->|I]; [now left|]. right. apply In_lit_tok. exact (IH I).
Qed.

Lemma length_chunk_render : forall c cs, In c cs -> (length (chunk_text c) <= length (render cs))%nat.
Proof.
  intros c cs. induction cs as [|c' cs IH]; intros I; [destruct I|]. cbn [render].
  rewrite app_length. destruct I as [->|I]; [lia|]. specialize (IH I). lia.
Qed.

Definition rule_ok (ic : icpts) (ign : bool) (name rule : bytes) : Prop :=
  rule = [] \/ (exists f, alookup rule ic = Some f) \/
  (exists r, re_parse rule = POk r /\
             (ign = true \/ (name <> [] /\ forallb (fun c => is_word c || N.eqb c 95) name = true))).

Lemma split_accepts_shape : forall ic l0 cs, NB l0 -> Forall chunk_ok cs -> gaps_ok cs ->
  l0 ++ render cs <> [] -> (N.of_nat (length (l0 ++ render cs)) <= max_int16)%N ->
  (forall ign name rule, In (TPar ign name rule) (lit_tok l0 (toks cs)) -> rule_ok ic ign name rule) ->
  if dupfree [] cs then exists segs, split ic (l0 ++ render cs) = Ok segs
  else split ic (l0 ++ render cs) = Err (bs "dupname").
Proof.
  intros ic l0 cs N0 Hcs G Hne Hlen Hr. rewrite split_shape by assumption.
  rewrite app_length in Hlen.
  assert (Hs : forall c, In c cs -> exists s, seg_chunk ic s c).
  { intros c I. unfold seg_chunk. apply chunk_seg_accepts.
    - pose proof (length_chunk_render c cs I) as L. unfold max_int16 in *. lia.
    - apply (Hr (c_ign c) (c_name c) (c_rule c)). apply In_lit_tok. exact (In_toks c cs I). }
  pose proof (sp_chunks_res ic cs false [] Hcs G (or_intror eq_refl) Hs) as R.
  destruct l0 as [|c l0]; [exact R|].
  rewrite toolong_false by (unfold max_int16 in *; lia).
  destruct (dupfree [] cs).
  - destruct R as [rest ->]. cbn [bind]. now eexists.
  - rewrite R. reflexivity.
Qed.

(* ================================================================ Part 5 : the theorems *)

Theorem tokens_imply_pat_wf : forall p ts, tokens p = Some ts -> TreeNames.pat_wf p = true.
Proof.
  intros p ts H. destruct (tokens_shape p ts H) as [l0 [cs [-> [Hne [N0 [Hcs _]]]]]].
  unfold TreeNames.pat_wf. rewrite split_string_shape; [|exact N0|now apply chunk_ok_nb|exact Hne].
  rewrite forallb_app. apply andb_true_iff. split.
  - destruct l0 as [|c l0]; [reflexivity|]. cbn [lit_piece forallb TreeNames.piece_wf].
    destruct (N.eqb_spec c 123) as [->|N]; [|reflexivity]. elim (proj1 N0). now left.
  - apply forallb_forall. intros x I. apply in_map_iff in I. destruct I as [c [<- I]].
    rewrite Forall_forall in Hcs. destruct (Hcs c I) as [[[Nb _] [Nl _]] _].
    unfold chunk_text. cbn [TreeNames.piece_wf]. change (N.eqb 123 123) with true. cbv iota.
    rewrite ib_notin; [reflexivity|]. intro J. apply in_app_or in J.
    destruct J as [J|[J|J]]; [exact (Nb J) | discriminate J | exact (Nl J)].
Qed.

Theorem tokens_split_agree_partial : forall ic p ts, tokens p = Some ts ->
  (N.of_nat (length p) <= max_int16)%N ->
  (forall ign name rule, In (TPar ign name rule) ts ->
     rule = [] \/ (exists f, alookup rule ic = Some f) \/
     (exists r, re_parse rule = POk r /\
                (ign = true \/ (name <> [] /\ forallb (fun c => is_word c || N.eqb c 95) name = true)))) ->
  exists segs, split ic p = Ok segs /\ toks_of_segs segs ts.
Proof.
  intros ic p ts H Hlen Hr.
  destruct (tokens_shape p ts H) as [l0 [cs [-> [Hne [N0 [Hcs [G [-> ND]]]]]]]].
  pose proof (split_accepts_shape ic l0 cs N0 Hcs G Hne Hlen Hr) as R.
  rewrite (dupfree_true cs [] ND (fun n _ => eq_refl)) in R. destruct R as [segs E].
  exists segs. split; [exact E|].
  destruct (split_ok_shape ic l0 cs segs N0 Hcs Hne E) as [rest [-> [F _]]].
  apply toks_lit_segs. exact (F2_toks ic rest cs F).
Qed.

Theorem tokens_split_names : forall ic p ts segs, tokens p = Some ts -> split ic p = Ok segs ->
  map sname (filter Misc1.param_seg segs) = par_names ts /\
  map sname (filter (fun s => Misc1.param_seg s && negb (signore s)) segs) = capture_names ts.
Proof.
  intros ic p ts segs H E.
  destruct (tokens_shape p ts H) as [l0 [cs [-> [Hne [N0 [Hcs [G [-> ND]]]]]]]].
  destruct (split_ok_shape ic l0 cs segs N0 Hcs Hne E) as [rest [-> [F _]]].
  rewrite par_names_lit, capture_names_lit, par_names_toks, capture_names_toks.
  destruct (F2_names ic rest cs F) as [H1 H2].
  destruct l0 as [|c l0]; [split; assumption|]. cbn [lit_segs app filter].
  change (Misc1.param_seg (string_seg (c :: l0))) with false. cbn [andb]. split; assumption.
Qed.

(* the accepted segments and the tokens agree on the kind of every constraint *)
Theorem tokens_split_kinds : forall ic p ts segs, tokens p = Some ts -> split ic p = Ok segs ->
  Forall (fun s => Misc1.param_seg s = true -> seg_agrees ic s) segs.
Proof.
  intros ic p ts segs H E.
  destruct (tokens_shape p ts H) as [l0 [cs [-> [Hne [N0 [Hcs [G [-> ND]]]]]]]].
  destruct (split_ok_shape ic l0 cs segs N0 Hcs Hne E) as [rest [-> [F _]]].
  apply Forall_app. split.
  - destruct l0 as [|c l0]; [constructor|]. constructor; [|constructor]. intro P. discriminate P.
  - eapply Forall_impl; [|exact (F2_agrees ic rest cs F)]. intros s [_ A] _. exact A.
Qed.

Lemma url_segs_inst : forall segs ts ps, toks_of_segs segs ts ->
  url_segs segs ps = match instantiate ts ps with Some u => Ok u | None => Err (bs "missing-param") end.
Proof.
  intros segs ts ps H. induction H as [|l segs ts Hl H IH|s segs ts P H IH]; [reflexivity| |].
  - cbn [url_segs string_seg styp sval instantiate]. rewrite IH.
    destruct (instantiate ts ps); reflexivity.
  - cbn [url_segs instantiate]. unfold Misc1.param_seg in P.
    assert (E : forall (A : Type) (x y : A), match styp s with TString => x | _ => y end = y).
    { intros A x y. destruct (styp s); [discriminate P | reflexivity ..]. }
    rewrite E. destruct (ctx_get ps (sname s)) as [v|]; [|reflexivity]. rewrite IH.
    destruct (ssuffix s) as [|c suf]; cbn [lit_tok instantiate].
    + destruct (instantiate ts ps); reflexivity.
    + destruct (instantiate ts ps); reflexivity.
Qed.

Theorem nonstrict_is_instantiate_partial : forall p ts ps, tokens p = Some ts ->
  (N.of_nat (length p) <= max_int16)%N ->
  (forall ign name rule, In (TPar ign name rule) ts ->
     rule = [] \/ exists r, re_parse rule = POk r /\
       (ign = true \/ (name <> [] /\ forallb (fun c => is_word c || N.eqb c 95) name = true))) ->
  url_nonstrict p ps = match instantiate ts ps with Some u => Ok u | None => Err (bs "missing-param") end.
Proof.
  intros p ts ps H Hlen Hr.
  destruct (tokens_split_agree_partial [] p ts H Hlen) as [segs [E T]].
  { intros ign name rule I. destruct (Hr ign name rule I) as [R|R]; [now left | right; now right]. }
  unfold url_nonstrict. destruct p as [|b p]; [discriminate H|].
  rewrite E. cbn [bind]. now apply url_segs_inst.
Qed.

(* ================================================================ Part 6 : the syntax errors *)

(* the pieces of  l0 ++ "{b1}l1" ... "{bn}ln" ++ "{" b "}" rest  : the well-shaped prefix is cut as
   usual, the next piece starts with "{b}" *)
Lemma render_app_head : forall cs y, exists y', render cs ++ 123 :: y = 123 :: y'.
Proof.
  intros cs y. destruct cs as [|c cs]; [now exists y|].
  rewrite render_cons. cbn [app]. eexists. reflexivity.
Qed.

Lemma split_string_prefix : forall l0 cs y, NB l0 -> Forall chunk_nb cs ->
  exists f, split_string (l0 ++ render cs ++ 123 :: y) =
            go (S f) (123 :: y) (rev (map chunk_text cs) ++ lit_piece l0).
Proof.
  intros l0 cs y [N0 _] Hcs. destruct (render_app_head cs y) as [y' E]. rewrite E.
  rewrite split_string_enter by exact N0. rewrite <- E.
  set (p := l0 ++ render cs ++ 123 :: y).
  assert (L : (length cs <= length p)%nat).
  { pose proof (length_render cs) as L. unfold p. rewrite !app_length. lia. }
  exists (length p - length cs)%nat.
  replace (S (length p)) with (length cs + S (length p - length cs))%nat by lia.
  now rewrite go_render.
Qed.

Lemma rev_acc_pieces : forall (cs : list chunk) l0,
  rev (rev (map chunk_text cs) ++ lit_piece l0) = lit_piece l0 ++ map chunk_text cs.
Proof. intros cs l0. now rewrite rev_app_distr, rev_involutive, rev_lit_piece. Qed.

Lemma split_string_bad_token : forall l0 cs b rest, NB l0 -> Forall chunk_nb cs -> ~ In 125 b ->
  exists x qs, split_string (l0 ++ render cs ++ 123 :: b ++ 125 :: rest) =
               (lit_piece l0 ++ map chunk_text cs) ++ (123 :: b ++ 125 :: x) :: qs.
Proof.
  intros l0 cs b rest N0 Hcs Nb.
  destruct (split_string_prefix l0 cs (b ++ 125 :: rest) N0 Hcs) as [f ->].
  rewrite go_enter by exact Nb.
  destruct (loop_first (S f) (123 :: b ++ 125 :: rest) (S (length b))
              (rev (map chunk_text cs) ++ lit_piece l0)) as [k [qs [-> Lk]]].
  { cbn [nth_error]. rewrite nth_error_app2 by lia. now rewrite Nat.sub_diag. }
  rewrite rev_acc_pieces. exists (firstn (k - S (S (length b))) rest), qs. f_equal. f_equal.
  destruct k as [|k]; [lia|]. cbn [firstn]. f_equal. rewrite firstn_app.
  rewrite firstn_all2 by lia. f_equal.
  destruct (k - length b)%nat as [|m] eqn:Ek; [lia|]. cbn [firstn]. f_equal. f_equal. lia.
Qed.

Lemma split_string_adjacent : forall l0 cs n rest, NB l0 -> Forall chunk_nb cs -> ~ In 125 n ->
  exists q qs, split_string (l0 ++ render cs ++ 123 :: n ++ 125 :: 123 :: rest) =
               (lit_piece l0 ++ map chunk_text cs) ++ (123 :: n ++ [125]) :: q :: qs /\
               first_byte q = Some 123.
Proof.
  intros l0 cs n rest N0 Hcs Nn.
  destruct (split_string_prefix l0 cs (n ++ 125 :: 123 :: rest) N0 Hcs) as [f ->].
  change (123 :: n ++ 125 :: 123 :: rest) with (123 :: n ++ 125 :: [] ++ 123 :: rest).
  rewrite go_step; [|exact Nn|intros []].
  destruct (go_first f 123 rest ((123 :: n ++ [125]) :: rev (map chunk_text cs) ++ lit_piece l0))
    as [q [qs [-> Hq]]].
  exists q, qs. split; [|exact Hq]. cbn [rev]. rewrite rev_acc_pieces, <- app_assoc. reflexivity.
Qed.

(* what has to succeed for split_pieces to succeed *)
Lemma sp_app_ok : forall ic A B flag names segs, split_pieces ic (A ++ B) flag names = Ok segs ->
  exists flag' names' segs', split_pieces ic B flag' names' = Ok segs'.
Proof.
  intros ic A B. induction A as [|a A IH]; intros flag names segs H.
  - now exists flag, names, segs.
  - cbn [app split_pieces] in H. destruct (first_byte a) as [c0|]; [|discriminate H].
    destruct (flag && N.eqb c0 123); [discriminate H|].
    apply bind_ok_inv in H. destruct H as [seg [_ H]]. cbv zeta in H.
    destruct (negb (stype_eqb (styp seg) TString) && mem (sname seg) names); [discriminate H|].
    apply bind_ok_inv in H. destruct H as [rest [H _]]. exact (IH _ _ _ H).
Qed.

Lemma sp_head_ok : forall ic q qs flag names segs, split_pieces ic (q :: qs) flag names = Ok segs ->
  exists s, new_segment ic q = Ok s.
Proof.
  intros ic q qs flag names segs H. cbn [split_pieces] in H.
  destruct (first_byte q) as [c0|]; [|discriminate H].
  destruct (flag && N.eqb c0 123); [discriminate H|].
  apply bind_ok_inv in H. destruct H as [seg [E _]]. now exists seg.
Qed.

Lemma sp_adjacent_not_ok : forall ic t q qs flag names segs, first_byte q = Some 123 ->
  ends_with t 125 = true -> split_pieces ic (t :: q :: qs) flag names <> Ok segs.
Proof.
  intros ic t q qs flag names segs Hq Ht H. cbn [split_pieces] in H.
  destruct (first_byte t) as [c0|]; [|discriminate H].
  destruct (flag && N.eqb c0 123); [discriminate H|].
  apply bind_ok_inv in H. destruct H as [seg [_ H]]. cbv zeta in H.
  destruct (negb (stype_eqb (styp seg) TString) && mem (sname seg) names); [discriminate H|].
  apply bind_ok_inv in H. destruct H as [rest [H _]].
  rewrite Hq, Ht in H. discriminate H.
Qed.

(* ---- empty name: "{}" and "{:rule}" *)
Definition empty_name_body (b : bytes) : bool := match b with [] => true | c :: _ => N.eqb c 58 end.

Lemma ib_in : forall s c, In c s -> exists i, index_byte s c = Some i.
Proof.
  intros s c I. destruct (index_byte s c) as [i|] eqn:E; [now exists i|].
  elim (TreeNames.index_byte_none_notIn s c E I).
Qed.

Theorem empty_name_segment : forall ic b x, empty_name_body b = true -> ~ In 125 b ->
  new_segment ic (123 :: b ++ 125 :: x) =
  Err (if toolong (123 :: b ++ 125 :: x) then bs "toolong" else bs "syntax").
Proof.
  intros ic b x Hb Nb. unfold new_segment. fold (toolong (123 :: b ++ 125 :: x)).
  destruct (toolong (123 :: b ++ 125 :: x)); [reflexivity|].
  destruct b as [|c r].
  - reflexivity.
  - cbn [empty_name_body] in Hb. apply N.eqb_eq in Hb. subst c.
    assert (I2 : index_byte (123 :: (58 :: r) ++ 125 :: x) 125 = Some (S (length (58 :: r)))).
    { cbn [index_byte]. change (N.eqb 123 125) with false. cbv iota.
      now rewrite (ib_app_notin (58 :: r) 125 x Nb). }
    rewrite I2. reflexivity.
Qed.

Theorem empty_name_rejected : forall ic l0 cs b rest, nobr l0 = true -> Forall chunk_ok cs ->
  empty_name_body b = true -> nobr b = true ->
  forall segs, split ic (l0 ++ render cs ++ 123 :: b ++ 125 :: rest) <> Ok segs.
Proof.
  intros ic l0 cs b rest H0 Hcs Hb Hnb segs H. apply nobr_NB in H0. apply nobr_NB in Hnb.
  destruct Hnb as [_ Nb].
  destruct (split_string_bad_token l0 cs b rest H0 (chunk_ok_nb _ Hcs) Nb) as [x [qs E]].
  unfold split in H. destruct (l0 ++ render cs ++ 123 :: b ++ 125 :: rest); [discriminate H|].
  rewrite E in H. apply sp_app_ok in H. destruct H as [flag' [names' [segs' H]]].
  apply sp_head_ok in H. destruct H as [s H].
  rewrite (empty_name_segment ic b x Hb Nb) in H. discriminate H.
Qed.

(* the first token: the error is the syntax error (or the length error) *)
Theorem empty_name_first_error : forall ic l0 b rest, nobr l0 = true ->
  empty_name_body b = true -> nobr b = true ->
  exists e, split ic (l0 ++ 123 :: b ++ 125 :: rest) = Err e /\ (e = bs "syntax" \/ e = bs "toolong").
Proof.
  intros ic l0 b rest H0 Hb Hnb. apply nobr_NB in H0. apply nobr_NB in Hnb.
  destruct Hnb as [_ Nb].
  unfold split. destruct (l0 ++ 123 :: b ++ 125 :: rest) eqn:Ep.
  { apply app_eq_nil in Ep. destruct Ep as [_ Ep]. discriminate Ep. }
  rewrite <- Ep. clear Ep.
  destruct (split_string_bad_token l0 [] b rest H0 (Forall_nil _) Nb) as [x [qs E]].
  cbn [render app map] in E. rewrite app_nil_r in E. rewrite E.
  assert (B : exists e, split_pieces ic ((123 :: b ++ 125 :: x) :: qs) false [] = Err e /\
                        (e = bs "syntax" \/ e = bs "toolong")).
  { cbn [split_pieces first_byte andb]. rewrite (empty_name_segment ic b x Hb Nb). cbn [bind].
    eexists. split; [reflexivity|]. destruct (toolong _); [now right | now left]. }
  destruct l0 as [|c l0]; [exact B|]. cbn [lit_piece app].
  rewrite sp_lit_step by (exact H0 || discriminate).
  destruct (toolong (c :: l0)); [eexists; split; [reflexivity | now right]|].
  destruct B as [e [-> D]]. cbn [bind]. now exists e.
Qed.

(* ---- adjacent parameters: "{n}{" *)
Theorem adjacent_rejected : forall ic l0 cs n rest, nobr l0 = true -> Forall chunk_ok cs ->
  nobr n = true ->
  forall segs, split ic (l0 ++ render cs ++ 123 :: n ++ 125 :: 123 :: rest) <> Ok segs.
Proof.
  intros ic l0 cs n rest H0 Hcs Hn segs H. apply nobr_NB in H0. apply nobr_NB in Hn.
  destruct Hn as [_ Nn].
  destruct (split_string_adjacent l0 cs n rest H0 (chunk_ok_nb _ Hcs) Nn) as [q [qs [E Hq]]].
  unfold split in H. destruct (l0 ++ render cs ++ 123 :: n ++ 125 :: 123 :: rest); [discriminate H|].
  rewrite E in H. apply sp_app_ok in H. destruct H as [flag' [names' [segs' H]]].
  revert H. apply sp_adjacent_not_ok; [exact Hq|].
  change (123 :: n ++ [125]) with ((123 :: n) ++ [125]). apply ends_with_snoc.
Qed.

(* the first two tokens: when the first one is accepted the error is "adjacent" *)
Theorem adjacent_first_error : forall ic l0 n rest, nobr l0 = true -> nobr n = true ->
  (N.of_nat (length l0) <= max_int16)%N ->
  split ic (l0 ++ 123 :: n ++ 125 :: 123 :: rest) =
  bind (new_segment ic (123 :: n ++ [125])) (fun _ => Err (bs "adjacent")).
Proof.
  intros ic l0 n rest H0 Hn Hlen. apply nobr_NB in H0. apply nobr_NB in Hn. destruct Hn as [_ Nn].
  unfold split. destruct (l0 ++ 123 :: n ++ 125 :: 123 :: rest) eqn:Ep.
  { apply app_eq_nil in Ep. destruct Ep as [_ Ep]. discriminate Ep. }
  rewrite <- Ep. clear Ep.
  destruct (split_string_adjacent l0 [] n rest H0 (Forall_nil _) Nn) as [q [qs [E Hq]]].
  cbn [render app map] in E. rewrite app_nil_r in E. rewrite E.
  assert (B : split_pieces ic ((123 :: n ++ [125]) :: q :: qs) false [] =
              bind (new_segment ic (123 :: n ++ [125])) (fun _ => Err (bs "adjacent"))).
  { cbn [split_pieces first_byte andb].
    destruct (new_segment ic (123 :: n ++ [125])) as [seg|e|e|]; cbn [bind]; try reflexivity.
    cbn [mem]. rewrite andb_false_r. rewrite Hq.
    change (123 :: n ++ [125]) with ((123 :: n) ++ [125]). rewrite ends_with_snoc.
    reflexivity. }
  destruct l0 as [|c l0]; [exact B|]. cbn [lit_piece app].
  rewrite sp_lit_step by (exact H0 || discriminate).
  rewrite toolong_false by exact Hlen. rewrite B.
  destruct (new_segment ic (123 :: n ++ [125])); reflexivity.
Qed.

(* ---- duplicate names: the scanner accepts the text, two tokens carry the same name *)
Lemma scan_shape : forall p ts, tok_scan (S (length p)) p [] = Some ts -> no_adjacent ts = true ->
  exists l0 cs, p = l0 ++ render cs /\ NB l0 /\ Forall chunk_ok cs /\ gaps_ok cs /\
                ts = lit_tok l0 (toks cs).
Proof.
  intros p ts TS NA. destruct (tok_scan_inv _ _ _ _ TS) as [l0 [cs [E [NB0 [OK ->]]]]].
  cbn [rev app] in *. exists l0, cs. split; [exact E|]. split; [exact NB0|]. split; [exact OK|].
  split; [|reflexivity]. apply no_adjacent_gaps. exact (no_adjacent_lit _ _ NA).
Qed.

Theorem dupname_rejected : forall ic p ts, tok_scan (S (length p)) p [] = Some ts ->
  no_adjacent ts = true -> nodupb (par_names ts) = false ->
  forall segs, split ic p <> Ok segs.
Proof.
  intros ic p ts TS NA ND segs H.
  destruct (scan_shape p ts TS NA) as [l0 [cs [-> [N0 [Hcs [G ->]]]]]].
  rewrite par_names_lit, par_names_toks in ND.
  assert (Hne : l0 ++ render cs <> []) by (intro E; rewrite E in H; discriminate H).
  destruct (split_ok_shape ic l0 cs segs N0 Hcs Hne H) as [rest [_ [_ ND']]]. congruence.
Qed.

Theorem dupname_error : forall ic p ts, tok_scan (S (length p)) p [] = Some ts ->
  no_adjacent ts = true -> nodupb (par_names ts) = false ->
  (N.of_nat (length p) <= max_int16)%N ->
  (forall ign name rule, In (TPar ign name rule) ts -> rule_ok ic ign name rule) ->
  split ic p = Err (bs "dupname").
Proof.
  intros ic p ts TS NA ND Hlen Hr.
  pose proof (dupname_rejected ic p ts TS NA ND) as NO.
  destruct (scan_shape p ts TS NA) as [l0 [cs [-> [N0 [Hcs [G ->]]]]]].
  assert (Hne : l0 ++ render cs <> []).
  { intro E. apply app_eq_nil in E. destruct E as [-> E]. destruct cs as [|c cs]; [discriminate ND|].
    rewrite render_cons in E. discriminate E. }
  pose proof (split_accepts_shape ic l0 cs N0 Hcs G Hne Hlen Hr) as R.
  destruct (dupfree [] cs); [|exact R]. destruct R as [segs E]. elim (NO segs E).
Qed.

(* ================================================================ Part 7 : examples, findings *)

Definition ex_pat : bytes := bs "/posts/{id}/{-page:\d+}.html".
Definition ex_ps : params := [(bs "id", bs "5"); (bs "page", bs "2")].

Example ex_tokens :
  tokens ex_pat = Some [TLit (bs "/posts/"); TPar false (bs "id") []; TLit (bs "/");
                        TPar true (bs "page") (bs "\d+"); TLit (bs ".html")].
Proof. vm_compute. reflexivity. Qed.

Example ex_split :
  match split [] ex_pat with
  | Ok segs => map (fun s => (sval s, sname s, srule s, ssuffix s, signore s)) segs =
               [(bs "/posts/", [], [], [], false);
                (bs "{id}/", bs "id", [], bs "/", false);
                (bs "{-page:\d+}.html", bs "page", bs "\d+", bs ".html", true)]
  | _ => False
  end.
Proof. vm_compute. reflexivity. Qed.

Example ex_url : url_nonstrict ex_pat ex_ps = Ok (bs "/posts/5/2.html") /\
                 instantiate [TLit (bs "/posts/"); TPar false (bs "id") []; TLit (bs "/");
                              TPar true (bs "page") (bs "\d+"); TLit (bs ".html")] ex_ps
                 = Some (bs "/posts/5/2.html").
Proof. vm_compute. split; reflexivity. Qed.

(* the hypotheses of the URL theorem hold on the example *)
Example ex_hyps : (N.of_nat (length ex_pat) <= max_int16)%N /\
  forall ign name rule, In (TPar ign name rule)
      [TLit (bs "/posts/"); TPar false (bs "id") []; TLit (bs "/");
       TPar true (bs "page") (bs "\d+"); TLit (bs ".html")] ->
    rule = [] \/ exists r, re_parse rule = POk r /\
      (ign = true \/ (name <> [] /\ forallb (fun c => is_word c || N.eqb c 95) name = true)).
Proof.
  split; [vm_compute; discriminate|].
  intros ign name rule [H|[H|[H|[H|[H|[]]]]]]; try discriminate H.
  - injection H as <- <- <-. now left.
  - injection H as <- <- <-. right. destruct (re_parse (bs "\d+")) as [r| |] eqn:E.
    + exists r. split; [reflexivity | now left].
    + vm_compute in E. discriminate E.
    + vm_compute in E. discriminate E.
Qed.

Example ex_missing : url_nonstrict ex_pat [(bs "id", bs "5")] = Err (bs "missing-param").
Proof. vm_compute. reflexivity. Qed.

Example ex_adjacent : split [] (bs "/a/{x}{y}") = Err (bs "adjacent") /\ tokens (bs "/a/{x}{y}") = None.
Proof. vm_compute. split; reflexivity. Qed.
Example ex_dupname : split [] (bs "/a/{x}/{x}") = Err (bs "dupname") /\ tokens (bs "/a/{x}/{x}") = None.
Proof. vm_compute. split; reflexivity. Qed.
Example ex_empty : split [] (bs "/a/{}") = Err (bs "syntax") /\ split [] (bs "/a/{:\d+}/b") = Err (bs "syntax") /\
                   tokens (bs "/a/{}") = None /\ tokens (bs "/a/{:\d+}/b") = None.
Proof. vm_compute. repeat split; reflexivity. Qed.

(* FINDING: the tokenizer is stricter on a bare '-' *)
Example dash_only_accepted :
  tokens (bs "/a/{-}") = None /\ tokens (bs "/a/{-:\d+}") = None /\
  (exists segs, split [] (bs "/a/{-}") = Ok segs) /\ (exists segs, split [] (bs "/a/{-:\d+}") = Ok segs).
Proof. vm_compute. repeat split; eexists; reflexivity. Qed.

(* FINDING: without the length bound the agreement is false *)
Lemma tok_scan_lit : forall l f lr, NB l -> (length l < f)%nat ->
  tok_scan f l lr = Some (flush (rev l ++ lr) []).
Proof.
  induction l as [|c l IH]; intros f lr Hl Hf; (destruct f as [|f]; [cbn in Hf; lia|]).
  - reflexivity.
  - cbn [tok_scan]. destruct Hl as [N3 N5].
    destruct (N.eqb_spec c 125) as [->|_]; [elim N5; now left|].
    destruct (N.eqb_spec c 123) as [->|_]; [elim N3; now left|].
    rewrite IH; [|split; intro I; [apply N3 | apply N5]; now right|cbn [length] in Hf; lia].
    cbn [rev]. now rewrite <- app_assoc.
Qed.

Lemma tokens_lit : forall l, NB l -> l <> [] -> tokens l = Some [TLit l].
Proof.
  intros l Hl Hne. unfold tokens. destruct l as [|b l]; [congruence|].
  rewrite tok_scan_lit by (exact Hl || lia). rewrite flush_lit, app_nil_r, rev_involutive.
  reflexivity.
Qed.

Lemma split_lit_toolong : forall ic l, NB l -> toolong l = true -> split ic l = Err (bs "toolong").
Proof.
  intros ic l Hl TL. destruct l as [|b l]; [discriminate TL|].
  pose proof (split_shape ic (b :: l) [] Hl (Forall_nil _)) as E. cbn [render] in E.
  rewrite app_nil_r in E. rewrite E by discriminate. now rewrite TL.
Qed.

Definition long_pat : bytes := repeat 97 (N.to_nat 32768).

Lemma long_pat_facts :
  tokens long_pat = Some [TLit long_pat] /\ split [] long_pat = Err (bs "toolong") /\
  url_nonstrict long_pat [] = Err (bs "toolong") /\ instantiate [TLit long_pat] [] = Some long_pat.
Proof.
  assert (Hl : NB long_pat).
  { split; intro I; apply repeat_spec in I; discriminate I. }
  assert (TL : toolong long_pat = true).
  { unfold toolong, long_pat. rewrite repeat_length, N2Nat.id. reflexivity. }
  assert (Hne : long_pat <> []) by (intro E; rewrite E in TL; discriminate TL).
  split; [exact (tokens_lit _ Hl Hne)|]. split; [exact (split_lit_toolong [] _ Hl TL)|]. split.
  - unfold url_nonstrict. destruct long_pat as [|b l] eqn:E; [congruence|].
    now rewrite (split_lit_toolong [] _ Hl TL).
  - cbn [instantiate]. now rewrite app_nil_r.
Qed.

Theorem tokens_split_agree_refuted :
  ~ (forall ic p ts, tokens p = Some ts ->
       (forall ign name rule, In (TPar ign name rule) ts ->
          rule = [] \/ (exists f, alookup rule ic = Some f) \/
          (exists r, re_parse rule = POk r /\
             (ign = true \/ (name <> [] /\ forallb (fun c => is_word c || N.eqb c 95) name = true)))) ->
       exists segs, split ic p = Ok segs /\ toks_of_segs segs ts).
Proof.
  intro H. destruct long_pat_facts as [T [S _]].
  destruct (H [] long_pat _ T) as [segs [E _]].
  - intros ign name rule [I|[]]. discriminate I.
  - rewrite S in E. discriminate E.
Qed.

Theorem nonstrict_is_instantiate_refuted :
  ~ (forall p ts ps, tokens p = Some ts ->
       (forall ign name rule, In (TPar ign name rule) ts ->
          rule = [] \/ exists r, re_parse rule = POk r /\
            (ign = true \/ (name <> [] /\ forallb (fun c => is_word c || N.eqb c 95) name = true))) ->
       url_nonstrict p ps = match instantiate ts ps with Some u => Ok u | None => Err (bs "missing-param") end).
Proof.
  intro H. destruct long_pat_facts as [T [_ [U I]]].
  specialize (H long_pat _ [] T). rewrite U, I in H.
  assert (X : Err (bs "toolong") = @Ok bytes long_pat); [|discriminate X].
  apply H. intros ign name rule [J|[]]. discriminate J.
Qed.

(* ================================================================ Part 8 : histories of well-formed patterns *)

Definition op_tokens (op : TreeSafe.top) : bool :=
  match op with
  | TreeSafe.OAdd p _ _ _ => match tokens p with Some _ => true | None => false end
  | _ => true
  end.
Definition hist_tokens (hist : list TreeSafe.top) : bool := forallb op_tokens hist.

Theorem hist_tokens_wf : forall hist, hist_tokens hist = true -> TreeNames.hist_wf hist = true.
Proof.
  intros hist H. unfold hist_tokens in H. unfold TreeNames.hist_wf.
  rewrite forallb_forall in *. intros op I. specialize (H op I).
  destruct op as [p h mws ms|p ms|prefix|mws]; try reflexivity. cbn [op_tokens] in H.
  cbn [TreeNames.op_wf]. destruct (tokens p) as [ts|] eqn:T; [|discriminate H].
  exact (tokens_imply_pat_wf p ts T).
Qed.

(* the dispatch theorem of Proofs/TreeNames.v for every history of well-formed patterns *)
Theorem dispatch_text_tokens : forall name ic trace hist method path n h ps ok,
  hist_tokens hist = true ->
  let t := fold_left TreeSafe.tstep hist (new_tree name ic trace) in
  tree_handler t method path [] = HFound ok (Some n) h ps ->
  ttrace t = None \/ method <> TRACE -> path <> bs "*" -> path <> [] ->
  MatchSound.walk (troot t) path [] n ps /\
  exists chain pieces, npat n = concat (map (fun c => sval (nseg c)) chain) /\
    path = concat pieces /\ length pieces = length chain /\
    Forall TreeText.node_label_ok chain /\ Forall2 TreeText.piece_ok chain pieces.
Proof.
  intros name ic trace hist method path n h ps ok W.
  exact (TreeNames.dispatch_text_wf_partial name ic trace hist method path n h ps ok
           (hist_tokens_wf hist W)).
Qed.

Theorem names_fresh_tokens : forall name ic trace hist, hist_tokens hist = true ->
  MatchSound.all_nodes MatchSound.names_fresh_at
    (troot (fold_left TreeSafe.tstep hist (new_tree name ic trace))).
Proof.
  intros name ic trace hist W.
  exact (TreeNames.names_fresh_reachable_partial name ic trace hist (hist_tokens_wf hist W)).
Qed.
