(* C08 (HEAD wrapper) / C18 (trace helper): facts about the response-writer model of Model/Http.v. *)
From Coq Require Import String.
From Mux Require Import Model.Bytes Model.Http Proofs.BytesFacts.

Definition no_cl (h : headers) : headers := h_del content_length h.

(* something the GET response ignores but the HEAD wrapper still sees: a header mutation or a
   WriteHeader after the first body Write that was not preceded by an explicit WriteHeader *)
Fixpoint late_event (script : list wevent) (frozen written : bool) : bool :=
  match script with
  | [] => false
  | EWrite _ :: l => late_event l frozen (written || negb frozen)
  | EWriteHeader _ :: l => written || late_event l true written
  | (ESet _ _ | EAdd _ _ | EDel _) :: l => written || late_event l frozen written
  end.

Definition total_written (script : list wevent) : N :=
  fold_right (fun e a => match e with EWrite n => n + a | _ => a end) 0 script.

Definition touches_cl (e : wevent) : bool :=
  match e with ESet k _ | EAdd k _ | EDel k => beqb k content_length | _ => false end.

Definition is_write (e : wevent) : bool := match e with EWrite _ => true | _ => false end.
Definition is_wh (e : wevent) : bool := match e with EWriteHeader _ => true | _ => false end.

(* ------------------------------------------------------------------ *)
(* header-map facts *)

Opaque N_to_dec content_length.

Lemma h_del_idem : forall k h, h_del k (h_del k h) = h_del k h.
Proof.
  intros k h. induction h as [|[k0 v0] h IH]; simpl; [reflexivity|].
  destruct (beqb k k0) eqn:E; simpl; [exact IH|]. rewrite E. now rewrite IH.
Qed.

Lemma h_del_comm : forall k k' h, h_del k (h_del k' h) = h_del k' (h_del k h).
Proof.
  intros k k' h. induction h as [|[k0 v0] h IH]; simpl; [reflexivity|].
  destruct (beqb k' k0) eqn:E'; destruct (beqb k k0) eqn:E; simpl;
    rewrite ?E, ?E'; rewrite ?IH; reflexivity.
Qed.

Lemma h_get_all_del_same : forall k h, h_get_all k (h_del k h) = [].
Proof.
  intros k h. induction h as [|[k0 v0] h IH]; simpl; [reflexivity|].
  destruct (beqb k k0) eqn:E; simpl; [exact IH|]. now rewrite E.
Qed.

Lemma h_get_all_del_other : forall k k' h, beqb k' k = false -> h_get_all k' (h_del k h) = h_get_all k' h.
Proof.
  intros k k' h Hne. induction h as [|[k0 v0] h IH]; simpl; [reflexivity|].
  destruct (beqb k k0) eqn:E; simpl.
  - apply beqb_eq in E. subst k0. now rewrite Hne.
  - now rewrite IH.
Qed.

Lemma h_del_set_same : forall k v h, h_del k (h_set k v h) = h_del k h.
Proof. intros k v h. unfold h_set. simpl. rewrite beqb_refl. apply h_del_idem. Qed.

Lemma h_del_set_other : forall k k' v h, beqb k k' = false -> h_del k (h_set k' v h) = h_set k' v (h_del k h).
Proof. intros k k' v h Hne. unfold h_set. simpl. rewrite Hne. now rewrite h_del_comm. Qed.

Lemma no_cl_set_cl : forall v h, no_cl (h_set content_length v h) = no_cl h.
Proof. intros v h. apply h_del_set_same. Qed.

Lemma no_cl_set_congr : forall k v a b, no_cl a = no_cl b -> no_cl (h_set k v a) = no_cl (h_set k v b).
Proof.
  intros k v a b Hab. unfold no_cl in *. unfold h_set. simpl.
  rewrite (h_del_comm content_length k a), (h_del_comm content_length k b), Hab. reflexivity.
Qed.

Lemma no_cl_del_congr : forall k a b, no_cl a = no_cl b -> no_cl (h_del k a) = no_cl (h_del k b).
Proof.
  intros k a b Hab. unfold no_cl in *.
  rewrite (h_del_comm content_length k a), (h_del_comm content_length k b), Hab. reflexivity.
Qed.

Lemma no_cl_add_congr : forall k v a b, no_cl a = no_cl b -> no_cl (h_add k v a) = no_cl (h_add k v b).
Proof.
  intros k v a b Hab. unfold no_cl in *. unfold h_add. simpl.
  rewrite (h_del_comm content_length k a), (h_del_comm content_length k b), Hab.
  destruct (beqb content_length k) eqn:E; [reflexivity|].
  rewrite beqb_sym in E.
  rewrite <- (h_get_all_del_other content_length k a E), <- (h_get_all_del_other content_length k b E), Hab.
  reflexivity.
Qed.

(* ------------------------------------------------------------------ *)
(* body counters *)

Lemma body_freeze : forall c w, body (w_freeze c w) = body w.
Proof. intros c w. unfold w_freeze. destruct (sent w); reflexivity. Qed.

Lemma body_get_gen : forall script w, body (fold_left w_step script w) = body w + total_written script.
Proof.
  induction script as [|e l IH]; intro w; simpl.
  - now rewrite N.add_0_r.
  - rewrite IH. destruct e; simpl; rewrite ?body_freeze; try reflexivity.
    now rewrite N.add_assoc.
Qed.

Lemma body_head_gen : forall script w size, body (fst (fold_left hw_step script (w, size))) = body w.
Proof.
  induction script as [|e l IH]; intros w size; simpl; [reflexivity|].
  destruct e; simpl; rewrite IH; simpl; rewrite ?body_freeze; reflexivity.
Qed.

Lemma head_no_body : forall h0 script, body (run_head h0 script) = 0.
Proof. intros h0 script. unfold run_head, w_finish. rewrite body_freeze, body_head_gen. reflexivity. Qed.

Lemma get_body : forall h0 script, body (run_get h0 script) = total_written script.
Proof. intros h0 script. unfold run_get, w_finish. rewrite body_freeze, body_get_gen. reflexivity. Qed.

(* ------------------------------------------------------------------ *)
(* simulation between the GET writer and the HEAD wrapper *)

Definition sim (frozen written : bool) (w w' : writer) : Prop :=
  if written then exists h, sent w = Some (200, h) /\ sent w' = None /\ no_cl (live w') = no_cl h
  else if frozen then exists c h h', sent w = Some (c, h) /\ sent w' = Some (c, h') /\ no_cl h' = no_cl h
  else sent w = None /\ sent w' = None /\ no_cl (live w') = no_cl (live w).

Lemma sim_run : forall script frozen written w w' size,
    sim frozen written w w' -> late_event script frozen written = false ->
    status_of (w_finish (fst (fold_left hw_step script (w', size)))) = status_of (w_finish (fold_left w_step script w)) /\
    no_cl (sent_headers (w_finish (fst (fold_left hw_step script (w', size))))) =
    no_cl (sent_headers (w_finish (fold_left w_step script w))).
Proof.
  induction script as [|e l IH]; intros frozen written w w' size Hsim Hlate.
  - destruct w as [lv sn bd]; destruct w' as [lv' sn' bd'].
    unfold sim in Hsim. cbn [fold_left fst]. unfold w_finish, w_freeze, status_of, sent_headers.
    destruct written; [|destruct frozen]; cbn [sent live body] in *.
    + destruct Hsim as [h [H1 [H2 H3]]]. subst sn sn'. cbn [sent live]. split; [reflexivity | exact H3].
    + destruct Hsim as [c [h [h' [H1 [H2 H3]]]]]. subst sn sn'. cbn [sent live]. split; [reflexivity | exact H3].
    + destruct Hsim as [H1 [H2 H3]]. subst sn sn'. cbn [sent live]. split; [reflexivity | exact H3].
  - cbn [fold_left].
    destruct w as [lv sn bd]; destruct w' as [lv' sn' bd'].
    destruct e as [k v | k v | k | c | n]; cbn [late_event] in Hlate.
    + (* ESet *)
      apply orb_false_iff in Hlate. destruct Hlate as [Hw Hlate]. subst written.
      cbn [hw_step w_step live sent body].
      apply (IH frozen false); [|exact Hlate].
      unfold sim in *. destruct frozen; cbn [sent live] in *.
      * exact Hsim.
      * destruct Hsim as [H1 [H2 H3]]. split; [exact H1 | split; [exact H2 | now apply no_cl_set_congr]].
    + (* EAdd *)
      apply orb_false_iff in Hlate. destruct Hlate as [Hw Hlate]. subst written.
      cbn [hw_step w_step live sent body].
      apply (IH frozen false); [|exact Hlate].
      unfold sim in *. destruct frozen; cbn [sent live] in *.
      * exact Hsim.
      * destruct Hsim as [H1 [H2 H3]]. split; [exact H1 | split; [exact H2 | now apply no_cl_add_congr]].
    + (* EDel *)
      apply orb_false_iff in Hlate. destruct Hlate as [Hw Hlate]. subst written.
      cbn [hw_step w_step live sent body].
      apply (IH frozen false); [|exact Hlate].
      unfold sim in *. destruct frozen; cbn [sent live] in *.
      * exact Hsim.
      * destruct Hsim as [H1 [H2 H3]]. split; [exact H1 | split; [exact H2 | now apply no_cl_del_congr]].
    + (* EWriteHeader *)
      apply orb_false_iff in Hlate. destruct Hlate as [Hw Hlate]. subst written.
      cbn [hw_step w_step].
      apply (IH true false); [|exact Hlate].
      unfold sim in *. destruct frozen; cbn [sent live] in *.
      * destruct Hsim as [c0 [h [h' [H1 [H2 H3]]]]]. subst sn sn'. unfold w_freeze. cbn [sent].
        exists c0, h, h'. cbn [sent]. split; [reflexivity | split; [reflexivity | exact H3]].
      * destruct Hsim as [H1 [H2 H3]]. subst sn sn'. unfold w_freeze. cbn [sent live body].
        exists c, lv, lv'. split; [reflexivity | split; [reflexivity | exact H3]].
    + (* EWrite *)
      cbn [hw_step w_step live sent body].
      unfold sim in Hsim. destruct written; [|destruct frozen]; cbn [sent live orb negb] in *.
      * destruct Hsim as [h [H1 [H2 H3]]]. subst sn sn'.
        apply (IH frozen true); [|exact Hlate].
        unfold sim, w_freeze. cbn [sent live body]. exists h.
        split; [reflexivity | split; [reflexivity |]]. now rewrite no_cl_set_cl.
      * destruct Hsim as [c [h [h' [H1 [H2 H3]]]]]. subst sn sn'.
        apply (IH true false); [|exact Hlate].
        unfold sim, w_freeze. cbn [sent live body]. exists c, h, h'.
        split; [reflexivity | split; [reflexivity | exact H3]].
      * destruct Hsim as [H1 [H2 H3]]. subst sn sn'.
        apply (IH false true); [|exact Hlate].
        unfold sim, w_freeze. cbn [sent live body]. exists lv.
        split; [reflexivity | split; [reflexivity |]]. now rewrite no_cl_set_cl.
Qed.

Lemma head_same_status_and_headers : forall h0 script, late_event script false false = false ->
    status_of (run_head h0 script) = status_of (run_get h0 script) /\
    no_cl (sent_headers (run_head h0 script)) = no_cl (sent_headers (run_get h0 script)).
Proof.
  intros h0 script Hlate. unfold run_head, run_get.
  apply (sim_run script false false); [|exact Hlate].
  unfold sim, w_new. cbn [sent live]. split; [reflexivity | split; reflexivity].
Qed.

(* ------------------------------------------------------------------ *)
(* Content-Length computed by the HEAD wrapper *)

Lemma h_get_all_set_other : forall k k' v h, beqb k' k = false -> h_get_all k' (h_set k v h) = h_get_all k' h.
Proof. intros k k' v h Hne. unfold h_set. simpl. rewrite Hne. now apply h_get_all_del_other. Qed.

Lemma h_get_all_add_other : forall k k' v h, beqb k' k = false -> h_get_all k' (h_add k v h) = h_get_all k' h.
Proof. intros k k' v h Hne. unfold h_add. simpl. rewrite Hne. now apply h_get_all_del_other. Qed.

Lemma h_get_all_set_same : forall k v h, h_get_all k (h_set k v h) = [v].
Proof. intros k v h. unfold h_set. simpl. now rewrite beqb_refl. Qed.

Lemma cl_run : forall script w size (b : bool),
    sent w = None -> (b = true -> h_get_all content_length (live w) = [N_to_dec size]) ->
    existsb is_wh script = false -> existsb touches_cl script = false ->
    sent (fst (fold_left hw_step script (w, size))) = None /\
    snd (fold_left hw_step script (w, size)) = size + total_written script /\
    (b || existsb is_write script = true ->
     h_get_all content_length (live (fst (fold_left hw_step script (w, size)))) =
     [N_to_dec (snd (fold_left hw_step script (w, size)))]).
Proof.
  induction script as [|e l IH]; intros w size b Hsent Hcl Hwh Htc.
  - cbn [fold_left fst snd total_written fold_right existsb]. rewrite N.add_0_r, orb_false_r.
    split; [exact Hsent | split; [reflexivity | exact Hcl]].
  - cbn [existsb] in Hwh, Htc.
    apply orb_false_iff in Hwh. destruct Hwh as [Hwh_e Hwh].
    apply orb_false_iff in Htc. destruct Htc as [Htc_e Htc].
    cbn [fold_left existsb].
    destruct w as [lv sn bd]. cbn [sent live] in Hsent, Hcl. subst sn.
    destruct e as [k v | k v | k | c | n]; cbn [touches_cl is_wh is_write] in *; try discriminate.
    + cbn [hw_step w_step sent live body]. rewrite beqb_sym in Htc_e.
      cbn [total_written fold_right]. fold (total_written l). rewrite orb_false_l.
      apply (IH _ size b); cbn [sent live]; [reflexivity | | exact Hwh | exact Htc].
      intro Hb. rewrite h_get_all_set_other by exact Htc_e. now apply Hcl.
    + cbn [hw_step w_step sent live body]. rewrite beqb_sym in Htc_e.
      cbn [total_written fold_right]. fold (total_written l). rewrite orb_false_l.
      apply (IH _ size b); cbn [sent live]; [reflexivity | | exact Hwh | exact Htc].
      intro Hb. rewrite h_get_all_add_other by exact Htc_e. now apply Hcl.
    + cbn [hw_step w_step sent live body]. rewrite beqb_sym in Htc_e.
      cbn [total_written fold_right]. fold (total_written l). rewrite orb_false_l.
      apply (IH _ size b); cbn [sent live]; [reflexivity | | exact Hwh | exact Htc].
      intro Hb. rewrite h_get_all_del_other by exact Htc_e. now apply Hcl.
    + cbn [hw_step sent live body].
      cbn [total_written fold_right]. fold (total_written l).
      destruct (IH {| live := h_set content_length (N_to_dec (size + n)) lv; sent := None; body := bd |}
                   (size + n) true) as [I1 [I2 I3]];
        cbn [sent live]; [reflexivity | | exact Hwh | exact Htc |].
      * intros _. apply h_get_all_set_same.
      * split; [exact I1 | split; [rewrite I2; now rewrite N.add_assoc |]].
        intros _. apply I3. reflexivity.
Qed.

Lemma head_content_length : forall h0 script, existsb is_write script = true -> existsb is_wh script = false ->
    existsb touches_cl script = false ->
    h_get_all content_length (sent_headers (run_head h0 script)) = [N_to_dec (total_written script)].
Proof.
  intros h0 script Hw Hwh Htc.
  destruct (cl_run script (w_new h0) 0 false) as [I1 [I2 I3]];
    [reflexivity | discriminate | exact Hwh | exact Htc |].
  unfold run_head, w_finish, w_freeze. rewrite I1. unfold sent_headers. cbn [sent].
  rewrite I3 by (rewrite Hw; reflexivity). rewrite I2. reflexivity.
Qed.

(* ------------------------------------------------------------------ *)
(* the guard of head_same_status_and_headers is necessary *)

Lemma late_event_refutes_unguarded : exists script, late_event script false false = true /\
    no_cl (sent_headers (run_head [] script)) <> no_cl (sent_headers (run_get [] script)).
Proof.
  exists [EWrite 1; ESet (bs "X-A") (bs "1"); EWrite 2]. split; [reflexivity|].
  vm_compute. discriminate.
Qed.

(* ------------------------------------------------------------------ *)
(* a status is always sent *)

Lemma status_gen : forall script w, (sent w = None \/ status_of w <> 0) ->
    status_of (w_finish (fold_left w_step script w)) <> 0 \/ In (EWriteHeader 0) script.
Proof.
  induction script as [|e l IH]; intros w Hw.
  - left. cbn [fold_left]. unfold w_finish, w_freeze, status_of in *.
    destruct (sent w) as [[c h]|] eqn:E.
    + rewrite E. destruct Hw as [Hw|Hw]; [discriminate | exact Hw].
    + cbn [sent]. discriminate.
  - cbn [fold_left].
    assert (Hstep : (sent (w_step w e) = None \/ status_of (w_step w e) <> 0) \/ e = EWriteHeader 0).
    { destruct w as [lv sn bd]. unfold status_of in *. cbn [sent] in Hw.
      destruct e as [k v | k v | k | c | n]; cbn [w_step sent live body].
      - left. exact Hw.
      - left. exact Hw.
      - left. exact Hw.
      - unfold w_freeze. cbn [sent]. destruct sn as [[c0 h0]|]; cbn [sent live body].
        + left. exact Hw.
        + destruct (N.eq_dec c 0) as [Hc|Hc]; [right; now subst c | left; right; exact Hc].
      - left. unfold w_freeze. cbn [sent]. destruct sn as [[c0 h0]|]; cbn [sent live body].
        + exact Hw.
        + right. discriminate. }
    destruct Hstep as [Hstep|Hstep].
    + destruct (IH _ Hstep) as [H|H]; [left; exact H | right; right; exact H].
    + right. left. exact Hstep.
Qed.

Lemma status_always_set : forall h0 script,
    status_of (run_get h0 script) <> 0 \/ exists c, In (EWriteHeader c) script /\ c = 0.
Proof.
  intros h0 script. unfold run_get.
  destruct (status_gen script (w_new h0)) as [H|H]; [left; reflexivity | left; exact H |].
  right. exists 0. split; [exact H | reflexivity].
Qed.

(* ------------------------------------------------------------------ *)
(* C18: the trace helper *)

Lemma trace_helper : forall text escape, let w := run_get [] (trace_script (Some text) escape) in
    status_of w = 200 /\ h_get_all content_type (sent_headers w) = [message_http] /\
    body w = N.of_nat (length (escape text)).
Proof.
  intros text escape w. subst w.
  unfold run_get, trace_script, w_finish, w_new. cbn [fold_left w_step].
  unfold w_freeze. cbn [sent live body]. unfold status_of, sent_headers. cbn [sent live body].
  split; [reflexivity | split; [|reflexivity]].
  rewrite h_get_all_set_same. reflexivity.
Qed.

(* ------------------------------------------------------------------ *)
(* the hypotheses are satisfiable on non-trivial inputs *)

Example guard_satisfiable :
  let script := [ESet (bs "X-A") (bs "1"); EAdd (bs "Content-Length") (bs "7"); EWriteHeader 404;
                 EWrite 3; EDel (bs "X-A"); EWrite 4] in
  late_event script false false = false /\
  status_of (run_head [] script) = 404 /\ status_of (run_get [] script) = 404 /\ body (run_get [] script) = 7.
Proof. vm_compute. repeat split. Qed.

Example guard_satisfiable_implicit :
  let script := [ESet (bs "X-A") (bs "1"); EWrite 3; EWrite 4] in
  late_event script false false = false /\
  sent_headers (run_get [] script) = [(bs "X-A", [bs "1"])] /\
  sent_headers (run_head [] script) = [(bs "Content-Length", [bs "7"]); (bs "X-A", [bs "1"])].
Proof. vm_compute. repeat split. Qed.

Example content_length_satisfiable :
  let script := [ESet (bs "X-A") (bs "1"); EWrite 30; EAdd (bs "X-B") (bs "2"); EWrite 12] in
  existsb is_write script = true /\ existsb is_wh script = false /\ existsb touches_cl script = false /\
  h_get_all content_length (sent_headers (run_head [] script)) = [bs "42"].
Proof. vm_compute. repeat split. Qed.
