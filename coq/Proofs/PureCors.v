(* cors.handle, translated from the current source by tools/srcfacts/pure.go (Gen/PureFuns.v), is the model's
   decision procedure.  Kept outside Props/ because the case analysis takes about a minute: it is recompiled only
   when the translated source changes. *)
From Coq Require Import String List ZArith Bool Lia.
From Mux Require Import Model.Bytes Model.Http Model.Cors.
From Mux Require Import Gen.PureFuns.
Import ListNotations.
Open Scope string_scope.

Definition apply_sev (wh : headers) (e : sev bytes) : headers :=
  match e with
  | SCall f [k; v] => if String.eqb f "wh.Set" then h_set k v wh
                      else if String.eqb f "wh.Add" then h_add k v wh else wh
  | _ => wh
  end.

Definition idx (x : bytes) (l : list bytes) : Z := if mem x l then 0%Z else (-1)%Z.

Lemma cors_handle_is_source :
  src_cors_handle_atoms = ["c.deny"; "r.Header.Get(header.AccessControlRequestMethod)"; "r.Method"; "r.URL.Path";
    "slices.Index(node.Methods(), reqMethod)"; "node.AllowHeader()"; "c.headerIsAllowed(r)"; "c.allowHeadersString";
    "c.maxAgeString"; "c.anyOrigins"; "r.Header.Get(header.Origin)"; "slices.Index(c.Origins, origin)";
    "c.AllowCredentials"; "c.exposedHeadersString"] /\
  forall c node_methods node_allow q wh,
    cors_handle c node_methods node_allow q wh =
    fold_left apply_sev
      (src_cors_handle bytes bs beqb (c_deny c) (q_acrm q) (q_method q) (q_path q) (idx (q_acrm q) node_methods) node_allow
         (header_is_allowed c (q_acrh q)) (c_allow_headers_string c) (c_max_age_string c) (c_any_origins c) (q_origin q)
         (idx (q_origin q) (c_origins c)) (c_creds c) (c_exposed_string c)) wh.
Proof.
  split; [reflexivity|]. intros c nm na q wh.
  unfold cors_handle, src_cors_handle, is_preflight, idx, star.
  change (bs "") with (@nil N).
  destruct (c_deny c); [reflexivity|].
  destruct (beqb (q_method q) (bs "OPTIONS")); destruct (beqb (q_acrm q) []) eqn:E2; destruct (beqb (q_path q) (bs "*"));
    cbn [andb negb];
    destruct (mem (q_acrm q) nm); cbn [negb Z.ltb Z.compare];
    destruct (header_is_allowed c (q_acrh q)); cbn [negb andb];
    destruct (c_allow_headers_string c) as [|x1 l1]; destruct (c_max_age_string c) as [|x2 l2]; destruct (c_exposed_string c) as [|x3 l3];
    cbn [beqb negb];
    destruct (c_any_origins c); cbn [orb negb];
    destruct (mem (q_origin q) (c_origins c)); cbn [negb Z.ltb Z.compare];
    destruct (c_creds c); reflexivity.
Qed.
