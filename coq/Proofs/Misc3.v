(* C14 : Hosts normalisation and case-insensitivity. *)
From Coq Require Import String.
From Mux Require Import Model.Bytes Model.Regex Model.Context Model.Syntax Model.Tree Model.Match
  Proofs.BytesFacts.

Lemma lower_byte_idem : forall c, lower_byte (lower_byte c) = lower_byte c.
Proof.
  intro c. unfold lower_byte.
  destruct ((65 <=? c) && (c <=? 90)) eqn:E; [|now rewrite E].
  apply andb_true_iff in E. destruct E as [E1 E2].
  apply N.leb_le in E1. apply N.leb_le in E2.
  assert (F : (c + 32 <=? 90) = false) by (apply N.leb_gt; lia).
  now rewrite F, andb_false_r.
Qed.

Lemma to_lower_idem : forall s, to_lower (to_lower s) = to_lower s.
Proof.
  intro s. unfold to_lower. rewrite map_map. apply map_ext. exact lower_byte_idem.
Qed.

Lemma C14_normalise_is_lower_l : forall h, to_lower (normalise_host h) = normalise_host h.
Proof. intro h. unfold normalise_host. apply to_lower_idem. Qed.

Lemma last_index_byte_app : forall h l c i,
  last_index_byte l c = Some i -> last_index_byte (h ++ l) c = Some (length h + i)%nat.
Proof.
  induction h as [|x h IH]; intros l c i H; cbn [app last_index_byte length]; [exact H|].
  now rewrite (IH l c i H).
Qed.

Lemma last_index_byte_digits : forall digits, forallb is_digit digits = true -> last_index_byte digits 58 = None.
Proof.
  induction digits as [|d digits IH]; intro H; cbn [last_index_byte]; [reflexivity|].
  cbn [forallb] in H. apply andb_true_iff in H. destruct H as [H1 H2].
  rewrite (IH H2). unfold is_digit in H1. apply andb_true_iff in H1. destruct H1 as [_ H1].
  apply N.leb_le in H1. destruct (N.eqb_spec d 58) as [->|N]; [lia | reflexivity].
Qed.

(* the guard on [h] is not needed: LastIndexByte finds the appended colon in any case *)
Lemma strip_port_valid_any : forall h digits,
  forallb is_digit digits = true -> strip_port (h ++ 58 :: digits) = h.
Proof.
  intros h digits D. unfold strip_port.
  assert (L : last_index_byte (58 :: digits) 58 = Some O).
  { cbn [last_index_byte]. now rewrite (last_index_byte_digits digits D). }
  rewrite (last_index_byte_app h _ 58 O L). rewrite Nat.add_0_r.
  rewrite skipn_app, skipn_all, Nat.sub_diag. cbn [app skipn valid_optional_port].
  rewrite D. cbn [N.eqb Pos.eqb andb].
  rewrite firstn_app, firstn_all, Nat.sub_diag. cbn [firstn]. apply app_nil_r.
Qed.

Lemma C14_strip_port_valid_l : forall h digits,
  forallb is_digit digits = true -> (forall c, In c h -> c <> 58) -> strip_port (h ++ 58 :: digits) = h.
Proof. intros h digits D _. now apply strip_port_valid_any. Qed.

Lemma C14_strip_port_invalid_l : forall h, last_index_byte h 58 = None -> strip_port h = h.
Proof. intros h H. unfold strip_port. now rewrite H. Qed.

Lemma C14_strip_brackets_l : forall h, strip_brackets (91 :: h ++ [93]) = h.
Proof.
  intro h. unfold strip_brackets.
  assert (E : ends_with (91 :: h ++ [93]) 93 = true).
  { unfold ends_with, last_byte. cbn [length]. rewrite app_length. cbn [length].
    replace (S (length h + 1) - 1)%nat with (S (length h)) by lia.
    cbn [nth_error]. rewrite nth_error_app2 by lia. rewrite Nat.sub_diag. reflexivity. }
  rewrite E. cbn [has_prefix N.eqb Pos.eqb andb skipn length].
  rewrite app_length. cbn [length].
  replace (S (length h + 1) - 2)%nat with (length h) by lia.
  rewrite firstn_app, firstn_all, Nat.sub_diag. cbn [firstn]. apply app_nil_r.
Qed.

Lemma C14_add_ci_l : forall t d d', to_lower d = to_lower d' -> hosts_add t d = hosts_add t d'.
Proof. intros t d d' H. unfold hosts_add. now rewrite H. Qed.

Lemma C14_delete_ci_l : forall t d d', to_lower d = to_lower d' -> hosts_delete t d = hosts_delete t d'.
Proof. intros t d d' H. unfold hosts_delete. now rewrite H. Qed.

Lemma C14_match_uses_normalised_l : forall t h h' ps,
  normalise_host h = normalise_host h' -> hosts_match_raw t h ps = hosts_match_raw t h' ps.
Proof. intros t h h' ps H. unfold hosts_match_raw. now rewrite H. Qed.

(* ---------------------------------------------------------------- non-vacuity *)
Example ex_norm_v6 : normalise_host (bs "[::1]:8080") = bs "::1".
Proof. vm_compute. reflexivity. Qed.
Example ex_norm_case : normalise_host (bs "Example.COM:80") = bs "example.com" /\
                       normalise_host (bs "example.com:8x") = bs "example.com:8x".
Proof. vm_compute. split; reflexivity. Qed.
Example ex_norm_same : normalise_host (bs "EXAMPLE.com:443") = normalise_host (bs "example.COM").
Proof. vm_compute. reflexivity. Qed.
Example ex_strip_port_guard : forallb is_digit (bs "8080") = true /\ (forall c, In c (bs "localhost") -> c <> 58).
Proof.
  split; [vm_compute; reflexivity|]. intros c I. vm_compute in I.
  repeat (destruct I as [<-|I]; [discriminate|]). contradiction.
Qed.
