(* Umbrella for the C10 / C17 / C18 / C14 / C04 / C03 proofs (split over Misc1 .. Misc5). *)
From Mux Require Export Proofs.Misc1 Proofs.Misc2 Proofs.Misc3 Proofs.Misc4 Proofs.Misc5.
