(* C13 / C14 over histories: every Hosts tree reachable from NewHosts by Add / Delete /
   RegisterInterceptor (including rejected calls) keeps the tree invariants of C02 / C05, never
   makes Hosts.Match fault, and a rejected Host leaves the parameters as they were when no name
   used in the tree is a key of the incoming parameters.
   Theorems are re-exported by Props/C14tree.v. *)
From Coq Require Import String.
From Mux Require Import Model.Bytes Model.Regex Model.Context Model.Syntax Model.Tree Model.Match
  Proofs.BytesFacts Proofs.MatchSound Proofs.TreeSafe Proofs.TreeOrder Proofs.TreeAllow Proofs.TreeText.

(* ================================================================ histories of a Hosts matcher *)

Inductive hop := HAdd (d : bytes) | HDel (d : bytes) | HReg (rule : bytes) (f : bytes -> bool).

(* Add panics with an error value on a bad / duplicate domain: the table is unchanged *)
Definition hkeep (t : tree) (r : res tree) : tree := match r with Ok t' => t' | _ => t end.

Definition hstep (t : tree) (op : hop) : tree :=
  match op with
  | HAdd d => hkeep t (hosts_add t d)
  | HDel d => hkeep t (hosts_delete t d)
  | HReg rule f => hosts_register t rule f
  end.

Definition hosts_reach (hist : list hop) : tree := fold_left hstep hist hosts_new.

(* every parameter name occurring anywhere in the tree: the names of the non-literal nodes
   below the root ("{-name}" counts: giving up such a node deletes "name" as well) *)
Fixpoint node_names (fuel : nat) (n : node) : list bytes :=
  match fuel with
  | O => []
  | S f => flat_map (fun ch => (if is_lit ch then [] else [sname (nseg ch)]) ++ node_names f ch)
                    (nchildren n)
  end.
Definition tree_names (t : tree) : list bytes := node_names (tree_fuel t) (troot t).
Definition name_in (t : tree) (k : bytes) : Prop := In k (tree_names t).
Definition disjoint_from (t : tree) (ps : params) : Prop := forall k, name_in t k -> ctx_get ps k = None.

(* [name_in] is exactly "the name of a non-literal strict descendant of the root" *)
Lemma desc_node_names : forall n d, desc n d -> forall fuel, (height n <= fuel)%nat ->
  is_lit d = false -> In (sname (nseg d)) (node_names fuel n).
Proof.
  intros n d D. induction D as [n ch Ich|n ch d Ich D IH]; intros fuel Hh Hl.
  - destruct fuel as [|f]; [rewrite MatchSound.height_eq in Hh; lia|].
    cbn [node_names]. apply in_flat_map. exists ch. split; [exact Ich|].
    apply in_or_app. left. rewrite Hl. now left.
  - destruct fuel as [|f]; [rewrite MatchSound.height_eq in Hh; lia|].
    cbn [node_names]. apply in_flat_map. exists ch. split; [exact Ich|].
    apply in_or_app. right. apply IH; [|exact Hl].
    apply height_child in Ich. lia.
Qed.

Lemma node_names_desc : forall fuel n k, In k (node_names fuel n) ->
  exists d, desc n d /\ is_lit d = false /\ sname (nseg d) = k.
Proof.
  induction fuel as [|f IH]; intros n k Hk; [destruct Hk|].
  cbn [node_names] in Hk. apply in_flat_map in Hk. destruct Hk as [ch [Ich Hk]].
  apply in_app_or in Hk. destruct Hk as [Hk|Hk].
  - destruct (is_lit ch) eqn:L; [destruct Hk|]. destruct Hk as [<-|[]].
    exists ch. split; [now apply desc_child|]. now split.
  - destruct (IH ch k Hk) as [d [D [L E]]]. exists d. split; [|now split].
    now apply (desc_step n ch d).
Qed.

Lemma name_in_iff : forall t k, name_in t k <->
  exists d, desc (troot t) d /\ is_lit d = false /\ sname (nseg d) = k.
Proof.
  intros t k. split.
  - apply node_names_desc.
  - intros [d [D [L <-]]]. apply desc_node_names; [exact D | unfold tree_fuel; lia | exact L].
Qed.

(* ================================================================ the invariants *)

(* a node below the root of a Hosts tree is either not a route or answers GET: Add registers
   GET only and Delete removes every method *)
Definition has_get (n : node) : Prop := nhandlers n = [] \/ ahas GET (nhandlers n) = true.

(* a literal label has the empty parameter name *)
Definition lit_noname (s : segment) : Prop := styp s = TString -> sname s = [].

Definition hinv (t : tree) : Prop :=
  tree_order_ok t /\ tree_safe t /\ kids_ok has_get (troot t) /\ tree_inv lit_noname t.

Lemma has_get_ext : forall n n', nhandlers n' = nhandlers n -> nmidx n' = nmidx n ->
  has_get n -> has_get n'.
Proof. intros n n' Eh _ H. unfold has_get. now rewrite Eh. Qed.

Lemma has_get_leaf : forall sg p, has_get (Node sg p 0 [] [] []).
Proof. intros sg p. now left. Qed.

Lemma lit_noname_new : forall ic val seg, new_segment ic val = Ok seg -> lit_noname seg.
Proof.
  intros ic val seg H T. apply new_segment_inv in H.
  destruct H as [->|[st [en [_ [_ [_ [_ [_ NT]]]]]]]]; [reflexivity | now elim NT].
Qed.

Lemma ahas_aset_keep : forall (l : list (bytes * hterm)) k k' v,
  ahas k l = true -> ahas k (aset k' v l) = true.
Proof.
  intros l k k' v H. unfold ahas in *. rewrite alookup_aset.
  destruct (beqb k k'); [reflexivity | exact H].
Qed.

Lemma add_get_ok_k : forall trace router h pattern mws,
  ok_k has_get (add_methods trace router h pattern mws [GET]).
Proof.
  intros trace router h pattern mws ch ch' Hch H. unfold add_methods in H.
  apply bind_ok in H. destruct H as [u [_ H]]. injection H as <-.
  apply (all_set_handlers has_get); [exact Hch|].
  right. rewrite nhandlers_set_handlers.
  assert (G1 : ahas GET (install_methods h pattern router mws [GET] (nhandlers ch)) = true).
  { cbn [install_methods]. rewrite beqb_refl. apply ahas_aset_same. }
  set (hs1 := install_methods h pattern router mws [GET] (nhandlers ch)) in *.
  assert (G2 : ahas GET (if ahas OPTIONS hs1 then hs1
                         else aset OPTIONS (apply_mw HOptions OPTIONS pattern router mws) hs1) = true).
  { destruct (ahas OPTIONS hs1); [exact G1 | now apply ahas_aset_keep]. }
  destruct (ahas M405 _); [exact G2 | now apply ahas_aset_keep].
Qed.

Lemma remove_all_has_get : forall trace ch ch' rm, all_nodes has_get ch ->
  remove_at_node trace [] ch = (ch', rm) -> all_nodes has_get ch'.
Proof.
  intros trace ch ch' rm Hch H. unfold remove_at_node in H. injection H as <- _.
  apply (all_set_handlers has_get); [exact Hch|]. left. apply nhandlers_set_handlers.
Qed.

(* tree_add, with the method list made explicit *)
Lemma tree_add_get_inv : forall t p h mws t', tree_add t p h mws [GET] = Ok t' ->
  exists segs root',
    get_node (tree_fuel t + length p + 2) (tic t) (troot t) segs
      (add_methods (has_trace t) (tname t) h p mws [GET]) = Ok root' /\
    t' = tree_build_methods t root' 1 [GET].
Proof.
  intros t p h mws t' H. unfold tree_add in H.
  apply bind_ok in H. destruct H as [amb [_ H]].
  assert (H' : (do segs <- split (tic t) p;
                do _ <- check_methods (has_trace t)
                  (match find (tree_fuel t + length p + 2) (troot t) p with
                   | Some n => nhandlers n | None => [] end) [] [GET];
                do root' <- get_node (tree_fuel t + length p + 2) (tic t) (troot t) segs
                  (add_methods (has_trace t) (tname t) h p mws [GET]);
                Ok (tree_build_methods t root' 1 [GET])) = Ok t').
  { destruct amb as [[p0 [|]]|]; [discriminate | exact H | exact H]. }
  clear H. apply bind_ok in H'. destruct H' as [segs [_ H]].
  apply bind_ok in H. destruct H as [u [_ H]].
  apply bind_ok in H. destruct H as [root' [G H]]. injection H as <-.
  exists segs, root'. split; [exact G | reflexivity].
Qed.

Lemma kids_build_methods : forall t root num ms, kids_ok has_get root ->
  kids_ok has_get (troot (tree_build_methods t root num ms)).
Proof.
  intros t root num ms Hk. unfold tree_build_methods, kids_ok. cbn [troot].
  rewrite nchildren_set_handlers. exact Hk.
Qed.

Lemma hinv_new : hinv hosts_new.
Proof.
  unfold hosts_new. split; [apply order_new_tree|]. split; [apply new_tree_safe|].
  split; [intros ch Ich; destruct Ich|]. apply inv_new_tree. exact lit_noname_new.
Qed.

Lemma hinv_add : forall t d t', hinv t -> hosts_add t d = Ok t' -> hinv t'.
Proof.
  intros t d t' [Ho [Hs [Hg Hl]]] H. unfold hosts_add in H.
  split; [exact (order_add _ _ _ _ _ _ Ho H)|].
  split; [exact (add_safe _ _ _ _ _ _ Hs H)|].
  split; [|exact (inv_add lit_noname lit_noname_new _ _ _ _ _ _ Hl H)].
  apply tree_add_get_inv in H. destruct H as [segs [root' [G ->]]].
  apply kids_build_methods.
  apply (get_node_kids has_get has_get_ext has_get_leaf) in G;
    [exact (proj1 G) | exact Hg | apply add_get_ok_k].
Qed.

Lemma hinv_delete : forall t d t', hinv t -> hosts_delete t d = Ok t' -> hinv t'.
Proof.
  intros t d t' [Ho [Hs [Hg Hl]]] H. unfold hosts_delete in H.
  split; [exact (order_remove _ _ _ _ Ho H)|].
  split; [exact (remove_safe _ _ _ _ Hs H)|].
  split; [|exact (inv_remove lit_noname _ _ _ _ Hl H)].
  apply tree_remove_inv in H. destruct H as [->|[root' [removed [R ->]]]]; [exact Hg|].
  apply kids_build_methods.
  apply (remove_in_kids has_get has_get_ext (has_trace t) [] (remove_all_has_get (has_trace t))) in R;
    [exact (proj1 R) | exact Hg].
Qed.

(* RegisterInterceptor only changes the interceptor table *)
Lemma hinv_register : forall t rule f, hinv t -> hinv (hosts_register t rule f).
Proof. intros t rule f [Ho [Hs [Hg Hl]]]. split; [exact Ho|]. split; [exact Hs|]. split; [exact Hg | exact Hl]. Qed.

Lemma hinv_step : forall t op, hinv t -> hinv (hstep t op).
Proof.
  intros t op Ht. destruct op as [d|d|rule f]; cbn [hstep].
  - destruct (hosts_add t d) as [t'|e|s|] eqn:E; cbn [hkeep]; try exact Ht.
    exact (hinv_add _ _ _ Ht E).
  - destruct (hosts_delete t d) as [t'|e|s|] eqn:E; cbn [hkeep]; try exact Ht.
    exact (hinv_delete _ _ _ Ht E).
  - now apply hinv_register.
Qed.

Lemma hinv_fold : forall hist t, hinv t -> hinv (fold_left hstep hist t).
Proof.
  induction hist as [|op hist IH]; intros t Ht; [exact Ht|].
  cbn [fold_left]. apply IH. now apply hinv_step.
Qed.

Lemma hinv_reach : forall hist, hinv (hosts_reach hist).
Proof. intro hist. apply hinv_fold, hinv_new. Qed.

Theorem hosts_order_reachable : forall hist, tree_order_ok (hosts_reach hist).
Proof. intro hist. exact (proj1 (hinv_reach hist)). Qed.

Theorem hosts_safe_reachable : forall hist, tree_safe (hosts_reach hist).
Proof. intro hist. exact (proj1 (proj2 (hinv_reach hist))). Qed.

(* ================================================================ Hosts.Match never faults *)

Lemma hosts_match_total_safe : forall t host ps, tree_safe t -> hosts_match_raw t host ps <> None.
Proof.
  intros t host ps Hs. unfold hosts_match_raw.
  destruct (tree_handler t GET (normalise_host host) ps) as [ok n h ps'|s] eqn:E; [discriminate|].
  now elim (handler_total t GET (normalise_host host) ps s Hs).
Qed.

Theorem hosts_match_total : forall hist host ps, hosts_match_raw (hosts_reach hist) host ps <> None.
Proof. intros hist host ps. apply hosts_match_total_safe, hosts_safe_reachable. Qed.

(* ================================================================ what a rejection is *)

(* a node found by the walk is a route *)
Lemma match_children_found_size : forall fuel n path ps r ps',
  match_children fuel n path ps = MFound r ps' -> (0 < nsize r)%nat.
Proof.
  induction fuel as [|f IH]; intros n path ps r ps' H; [discriminate|].
  assert (Hloop : forall l psc, mc_loop f n path l psc = MFound r ps' -> (0 < nsize r)%nat).
  { induction l as [|ch l IHl]; intros psc HL; simpl in HL.
    - destruct path; [|discriminate]. destruct (Nat.ltb 0 (nsize n)) eqn:SZ; [|discriminate].
      injection HL as <- _. now apply Nat.ltb_lt in SZ.
    - destruct (seg_match (nseg ch) path psc) as [[path1 ps1]|] eqn:SM; [|now apply (IHl psc)].
      destruct (match_children f ch path1 ps1) as [r0 p|p|s0] eqn:MC; [| |discriminate].
      + injection HL as -> ->. exact (IH _ _ _ _ _ MC).
      + exact (IHl _ HL). }
  rewrite match_children_S in H. cbv zeta in H.
  destruct (nindexes n) as [|ix0 ixs] eqn:IX; [exact (Hloop _ _ H)|].
  destruct path as [|b path]; [exact (Hloop _ _ H)|].
  destruct (nth_error (nchildren n) (idx_get b (ix0 :: ixs))) as [ch|] eqn:NTH; [|discriminate].
  destruct (seg_match (nseg ch) (b :: path) ps) as [[path1 ps1]|] eqn:SM; [|exact (Hloop _ _ H)].
  destruct (match_children f ch path1 ps1) as [r0 p|p|s0] eqn:MC; [| |discriminate].
  - injection H as -> ->. exact (IH _ _ _ _ _ MC).
  - exact (Hloop _ _ H).
Qed.

(* the node found is the start node itself (only on the empty path) or lies below it *)
Lemma match_children_found_below : forall (P : node -> Prop) fuel n path ps r ps',
  kids_ok P n -> match_children fuel n path ps = MFound r ps' -> (r = n /\ path = []) \/ P r.
Proof.
  intros P fuel n path ps r ps' Hk H. destruct fuel as [|f]; [discriminate|].
  assert (Hch : forall ch path1 ps1, In ch (nchildren n) ->
            match_children f ch path1 ps1 = MFound r ps' -> P r).
  { intros ch path1 ps1 Ich MC. exact (match_children_found_all P _ _ _ _ _ _ (Hk ch Ich) MC). }
  assert (Hloop : forall l psc, incl l (nchildren n) -> mc_loop f n path l psc = MFound r ps' ->
            (r = n /\ path = []) \/ P r).
  { induction l as [|ch l IHl]; intros psc Hin HL; simpl in HL.
    - destruct path; [|discriminate]. destruct (Nat.ltb 0 (nsize n)); [|discriminate].
      injection HL as <- _. left. now split.
    - assert (Ich : In ch (nchildren n)) by (apply Hin; now left).
      assert (Hin' : incl l (nchildren n)) by (intros x Ix; apply Hin; now right).
      destruct (seg_match (nseg ch) path psc) as [[path1 ps1]|] eqn:SM; [|now apply (IHl psc)].
      destruct (match_children f ch path1 ps1) as [r0 p|p|s0] eqn:MC; [| |discriminate].
      + injection HL as -> ->. right. exact (Hch ch path1 ps1 Ich MC).
      + exact (IHl _ Hin' HL). }
  rewrite match_children_S in H. cbv zeta in H.
  assert (Htail : incl (skipn (length (nindexes n)) (nchildren n)) (nchildren n)) by apply incl_skipn.
  destruct (nindexes n) as [|ix0 ixs] eqn:IX; [exact (Hloop _ _ Htail H)|].
  destruct path as [|b path]; [exact (Hloop _ _ Htail H)|].
  destruct (nth_error (nchildren n) (idx_get b (ix0 :: ixs))) as [ch|] eqn:NTH; [|discriminate].
  assert (Ich : In ch (nchildren n)) by (eapply nth_error_In; eassumption).
  destruct (seg_match (nseg ch) (b :: path) ps) as [[path1 ps1]|] eqn:SM; [|exact (Hloop _ _ Htail H)].
  destruct (match_children f ch path1 ps1) as [r0 p|p|s0] eqn:MC; [| |discriminate].
  - injection H as -> ->. right. exact (Hch ch path1 ps1 Ich MC).
  - exact (Hloop _ _ Htail H).
Qed.

Lemma get_not_trace : beqb GET TRACE = false.
Proof. reflexivity. Qed.
Lemma get_not_405 : beqb GET M405 = false.
Proof. reflexivity. Qed.

(* A rejection by Hosts.Match is one of:
   - the host is "" or "*" (the root is looked up, it has no GET handler): parameters untouched;
   - the walk found nothing.
   A node found by the walk answers GET (has_get), so "found but 405" does not occur. *)
Lemma hosts_reject_cases : forall t host ps ps', kids_ok has_get (troot t) ->
  hosts_match_raw t host ps = Some (false, ps') ->
  ps' = ps \/ match_children (tree_fuel t) (troot t) (normalise_host host) ps = MNone ps'.
Proof.
  intros t host ps ps' Hg H. unfold hosts_match_raw in H. rewrite tree_handler_eq in H.
  rewrite get_not_trace in H.
  assert (H' : match handler_of t GET
                 (if beqb (normalise_host host) (bs "*") || beqb (normalise_host host) []
                  then MFound (troot t) ps
                  else match_children (tree_fuel t) (troot t) (normalise_host host) ps) with
               | HPanic _ => None
               | HFound ok _ _ ps0 => Some (ok, ps0)
               end = Some (false, ps')).
  { destruct (ttrace t); exact H. }
  clear H. remember (normalise_host host) as path eqn:Epath. clear Epath.
  destruct (beqb path (bs "*") || beqb path []) eqn:SP.
  - (* "" and "*": the root itself *)
    left. cbn [handler_of] in H'.
    destruct (Nat.eqb (nsize (troot t)) 0); [now injection H' as <-|].
    destruct (lookup_handler GET (nhandlers (troot t))); [discriminate|].
    destruct (alookup M405 (nhandlers (troot t))); [now injection H' as <- | discriminate].
  - destruct (match_children (tree_fuel t) (troot t) path ps) as [r p|p|s] eqn:MC.
    + exfalso. pose proof (match_children_found_size _ _ _ _ _ _ MC) as Hsz.
      destruct (match_children_found_below has_get _ _ _ _ _ _ Hg MC) as [[_ Hp]|Hr].
      * subst path. rewrite orb_true_r in SP. discriminate.
      * cbn [handler_of] in H'. destruct (Nat.eqb_spec (nsize r) 0) as [E0|_]; [lia|].
        destruct Hr as [Hnil|Hget]; [unfold nsize in Hsz; rewrite Hnil in Hsz; simpl in Hsz; lia|].
        unfold lookup_handler in H'. rewrite get_not_405 in H'. unfold ahas in Hget.
        destruct (alookup GET (nhandlers r)); [discriminate H' | discriminate Hget].
    + right. cbn [handler_of] in H'. now injection H' as <-.
    + discriminate.
Qed.

(* ================================================================ rejections are clean *)

(* the side condition of the 404-exact theorem, over all descendants *)
Definition disjoint_all (t : tree) (ps : params) : Prop :=
  forall d, desc (troot t) d -> ctx_get ps (sname (nseg d)) = None.

(* hypotheses used: idx_lit at every node (from order_ok), has_get below the root, and the
   freshness of the names below the root w.r.t. [ps]; names_fresh_at is NOT needed *)
Lemma hosts_reject_clean_all : forall t host ps ps', tree_order_ok t -> kids_ok has_get (troot t) ->
  disjoint_all t ps -> hosts_match_raw t host ps = Some (false, ps') -> ps' = ps.
Proof.
  intros t host ps ps' Ho Hg Hd H.
  destruct (hosts_reject_cases _ _ _ _ Hg H) as [E|MC]; [exact E|].
  apply (match_children_none_exact _ _ _ _ _
           (TreeSafe.all_nodes_impl order_ok idx_lit order_ok_idx_lit _ Ho) Hd MC).
Qed.

Lemma is_lit_true : forall n, is_lit n = true -> styp (nseg n) = TString.
Proof. intros n H. unfold is_lit in H. now destruct (styp (nseg n)). Qed.

Lemma disjoint_all_of_names : forall t ps, tree_inv lit_noname t ->
  disjoint_from t ps -> ctx_get ps [] = None -> disjoint_all t ps.
Proof.
  intros t ps [Hl _] Hd He d D. destruct (is_lit d) eqn:L.
  - assert (Hn : sname (nseg d) = []).
    { apply (proj2 (all_nodes_desc _ _ _ Hl D)). now apply is_lit_true. }
    now rewrite Hn.
  - apply Hd. now apply desc_node_names; [|unfold tree_fuel; lia|].
Qed.

(* The statement given for C14_hosts_reject_clean (with [disjoint_from] only) is FALSE: giving up
   a literal node runs ctx.Delete(""), see [hosts_reject_clean_refuted].  It holds when, in
   addition, the empty name is not a key of the incoming parameters. *)
Theorem hosts_reject_clean_partial : forall hist host ps ps',
  disjoint_from (hosts_reach hist) ps -> ctx_get ps [] = None ->
  hosts_match_raw (hosts_reach hist) host ps = Some (false, ps') -> ps' = ps.
Proof.
  intros hist host ps ps' Hd He H. destruct (hinv_reach hist) as [Ho [_ [Hg Hl]]].
  apply (hosts_reject_clean_all _ host ps ps' Ho Hg); [|exact H].
  now apply disjoint_all_of_names.
Qed.

Theorem hosts_clean_when_disjoint_partial : forall hist,
  forall ps, disjoint_from (hosts_reach hist) ps -> ctx_get ps [] = None ->
  forall host ps', hosts_match_raw (hosts_reach hist) host ps = Some (false, ps') -> ps' = ps.
Proof. intros hist ps Hd He host ps' H. exact (hosts_reject_clean_partial hist host ps ps' Hd He H). Qed.

(* the same with the side condition of the 404-exact theorem itself (every node below the
   root, a literal one having whatever name its segment carries) *)
Theorem hosts_reject_clean_desc : forall hist host ps ps',
  (forall d, desc (troot (hosts_reach hist)) d -> ctx_get ps (sname (nseg d)) = None) ->
  hosts_match_raw (hosts_reach hist) host ps = Some (false, ps') -> ps' = ps.
Proof.
  intros hist host ps ps' Hd H. destruct (hinv_reach hist) as [Ho [_ [Hg _]]].
  exact (hosts_reject_clean_all _ host ps ps' Ho Hg Hd H).
Qed.

(* unconditionally, a rejection never adds or changes a parameter: it can only lose some *)
Theorem hosts_reject_sub_params : forall hist host ps ps',
  hosts_match_raw (hosts_reach hist) host ps = Some (false, ps') -> sub_params ps' ps.
Proof.
  intros hist host ps ps' H. destruct (hinv_reach hist) as [Ho [_ [Hg _]]].
  destruct (hosts_reject_cases _ _ _ _ Hg H) as [->|MC]; [apply sub_params_refl|].
  apply (match_children_none_params_partial _ _ _ _ _
           (TreeSafe.all_nodes_impl order_ok idx_lit order_ok_idx_lit _ Ho) MC).
Qed.

(* the case used by Group dispatch: the context is empty *)
Theorem hosts_clean_empty_ctx : forall hist host ps',
  hosts_match_raw (hosts_reach hist) host [] = Some (false, ps') -> ps' = [].
Proof.
  intros hist host ps' H. destruct (hinv_reach hist) as [Ho [_ [Hg _]]].
  apply (hosts_reject_clean_all _ host [] ps' Ho Hg); [|exact H].
  intros d _. reflexivity.
Qed.

(* ================================================================ case-insensitive Add / Delete *)

Lemma hosts_reach_snoc : forall hist op, hosts_reach (hist ++ [op]) = hstep (hosts_reach hist) op.
Proof. intros hist op. unfold hosts_reach. now rewrite fold_left_app. Qed.

Theorem add_case_insensitive_reach : forall hist d d', to_lower d = to_lower d' ->
  hosts_reach (hist ++ [HAdd d]) = hosts_reach (hist ++ [HAdd d']).
Proof.
  intros hist d d' H. rewrite !hosts_reach_snoc. cbn [hstep]. unfold hosts_add. now rewrite H.
Qed.

Theorem delete_case_insensitive_reach : forall hist d d', to_lower d = to_lower d' ->
  hosts_reach (hist ++ [HDel d]) = hosts_reach (hist ++ [HDel d']).
Proof.
  intros hist d d' H. rewrite !hosts_reach_snoc. cbn [hstep]. unfold hosts_delete. now rewrite H.
Qed.

(* ================================================================ examples *)

Definition ex_hosts_hist : list hop :=
  [HAdd (bs "api.example.com"); HAdd (bs "{sub}.example.com"); HDel (bs "API.example.com")].
Definition ex_hosts : tree := hosts_reach ex_hosts_hist.

Example ex_hosts_names : tree_names ex_hosts = [bs "sub"].
Proof. vm_compute. reflexivity. Qed.

Example ex_hosts_accept :
  hosts_match_raw ex_hosts (bs "x.example.com:8080") [] = Some (true, [(bs "sub", bs "x")]).
Proof. vm_compute. reflexivity. Qed.

Example ex_hosts_reject_empty : hosts_match_raw ex_hosts (bs "api.example.org") [] = Some (false, []).
Proof. vm_compute. reflexivity. Qed.

Example ex_hosts_reject_keeps :
  hosts_match_raw ex_hosts (bs "api.example.org") [(bs "zz", bs "keep")] = Some (false, [(bs "zz", bs "keep")]).
Proof. vm_compute. reflexivity. Qed.

(* the hypotheses of the partial theorem hold on this input *)
Example ex_hosts_disjoint : disjoint_from ex_hosts [(bs "zz", bs "keep")] /\ ctx_get [(bs "zz", bs "keep")] [] = None.
Proof.
  split; [|reflexivity]. intros k Hk. unfold name_in in Hk. rewrite ex_hosts_names in Hk.
  destruct Hk as [<-|[]]. reflexivity.
Qed.

Example ex_hosts_reject_by_theorem : forall host ps',
  hosts_match_raw ex_hosts host [(bs "zz", bs "keep")] = Some (false, ps') -> ps' = [(bs "zz", bs "keep")].
Proof.
  intros host ps' H.
  exact (hosts_reject_clean_partial ex_hosts_hist host _ ps' (proj1 ex_hosts_disjoint) (proj2 ex_hosts_disjoint) H).
Qed.

(* a host that the parameter node accepts and then gives up (".cn" is left over): the capture
   is deleted again *)
Example ex_hosts_abandon : hosts_match_raw ex_hosts (bs "x.example.com.cn") [] = Some (false, []).
Proof. vm_compute. reflexivity. Qed.

(* ================================================================ counterexamples *)

(* "ab" and "ac" share the literal node "a"; the host "ad" enters it and gives it up, which
   deletes the parameter named "" *)
Definition cx_hosts_hist : list hop := [HAdd (bs "ab"); HAdd (bs "ac")].

Example cx_hosts_names : tree_names (hosts_reach cx_hosts_hist) = [].
Proof. vm_compute. reflexivity. Qed.

Example cx_hosts_result :
  hosts_match_raw (hosts_reach cx_hosts_hist) (bs "ad") [([], bs "v")] = Some (false, []).
Proof. vm_compute. reflexivity. Qed.

Theorem hosts_reject_clean_refuted :
  ~ (forall hist host ps ps', disjoint_from (hosts_reach hist) ps ->
       hosts_match_raw (hosts_reach hist) host ps = Some (false, ps') -> ps' = ps).
Proof.
  intro H. specialize (H cx_hosts_hist (bs "ad") [([], bs "v")] []).
  assert (Hd : disjoint_from (hosts_reach cx_hosts_hist) [([], bs "v")]).
  { intros k Hk. unfold name_in in Hk. rewrite cx_hosts_names in Hk. destruct Hk. }
  specialize (H Hd cx_hosts_result). discriminate H.
Qed.

(* the unconditional [hosts_clean] of Proofs/Group.v does not hold for reachable trees: an
   incoming parameter that has the name of a parameter of the tree is lost on rejection *)
Example cx_hosts_unconditional :
  hosts_match_raw ex_hosts (bs "x.example.com.cn") [(bs "sub", bs "keep")] = Some (false, []).
Proof. vm_compute. reflexivity. Qed.

Theorem hosts_clean_unconditional_refuted :
  ~ (forall hist host ps ps', hosts_match_raw (hosts_reach hist) host ps = Some (false, ps') -> ps' = ps).
Proof. intro H. specialize (H _ _ _ _ cx_hosts_unconditional). discriminate H. Qed.
