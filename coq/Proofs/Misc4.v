(* C04 / C03 : the abstract route table of Spec/Table.v. *)
From Coq Require Import String.
From Mux Require Import Model.Bytes Model.Regex Model.Context Model.Syntax Model.Tree Spec.Table
  Proofs.BytesFacts Proofs.Misc2.

Lemma insert_sorted_In : forall x y l, In x (insert_sorted y l) <-> x = y \/ In x l.
Proof.
  intros x y l. induction l as [|z l IH]; cbn [insert_sorted In].
  - split; (intros [H|[]]; left; now symmetry).
  - destruct (bltb z y); cbn [In].
    + rewrite IH. tauto.
    + split; (intros [H|H]; [left; now symmetry | now right]).
Qed.

Lemma sort_bytes_In : forall x l, In x (sort_bytes l) <-> In x l.
Proof.
  intros x l. induction l as [|y l IH]; cbn [sort_bytes fold_right In]; [tauto|].
  fold (sort_bytes l). rewrite insert_sorted_In, IH. split; (intros [H|H]; [left; now symmetry | now right]).
Qed.

Lemma dedup_In : forall x l, In x (dedup l) <-> In x l.
Proof.
  intros x l. induction l as [|y l IH]; cbn [dedup In]; [tauto|].
  destruct (mem y l) eqn:M.
  - rewrite IH. split; [now right|]. intros [<-|H]; [now apply mem_In | exact H].
  - cbn [In]. now rewrite IH.
Qed.

Lemma spec_methods_In : forall trace e m,
  In m (spec_methods trace e) <->
  In m (user_keys e ++ (if mem GET (user_keys e) then [HEAD] else []) ++ [OPTIONS] ++ (if trace then [TRACE] else [])).
Proof. intros trace e m. unfold spec_methods. now rewrite sort_bytes_In, dedup_In. Qed.

Lemma C04_spec_exact_l : forall trace e m,
  In m (spec_methods trace e) <->
  (In m (user_keys e) \/ (m = HEAD /\ In GET (user_keys e)) \/ m = OPTIONS \/ (trace = true /\ m = TRACE)).
Proof.
  intros trace e m. rewrite spec_methods_In. rewrite !in_app_iff.
  split.
  - intros [H|[H|[H|H]]].
    + now left.
    + destruct (mem GET (user_keys e)) eqn:M; [|contradiction].
      destruct H as [<-|[]]. right. left. split; [reflexivity | now apply mem_In].
    + destruct H as [<-|[]]. right. right. now left.
    + destruct trace; [|contradiction]. destruct H as [<-|[]]. right. right. right. now split.
  - intros [H|[[-> H]|[->|[-> ->]]]].
    + now left.
    + right. left. apply mem_In in H. rewrite H. now left.
    + right. right. left. now left.
    + right. right. right. now left.
Qed.

Lemma C04_spec_has_options_l : forall trace e, In OPTIONS (spec_methods trace e).
Proof. intros trace e. apply C04_spec_exact_l. right. right. now left. Qed.

Lemma C04_spec_trace_l : forall e, In TRACE (spec_methods true e).
Proof. intro e. apply C04_spec_exact_l. right. right. right. now split. Qed.

Lemma user_keys_not_auto : forall e m, In m (user_keys e) -> is_auto m = false.
Proof.
  intros e m H. unfold user_keys, user_methods in H. apply filter_In in H.
  destruct H as [_ H]. now apply negb_true_iff in H.
Qed.

Lemma C04_spec_head_iff_get_l : forall trace e, In HEAD (spec_methods trace e) <-> In GET (user_keys e).
Proof.
  intros trace e. rewrite C04_spec_exact_l. split.
  - intros [H|[[_ H]|[H|[_ H]]]].
    + apply user_keys_not_auto in H. vm_compute in H. discriminate H.
    + exact H.
    + vm_compute in H. discriminate H.
    + vm_compute in H. discriminate H.
  - intro H. right. left. now split.
Qed.

(* ---------------------------------------------------------------- C03 *)
Lemma C03_remove_frame_l : forall t p ms q, beqb q p = false -> alookup q (t_remove t p ms) = alookup q t.
Proof.
  intros t p ms q N. unfold t_remove.
  destruct (alookup p t) as [e|]; [|reflexivity].
  destruct ms as [|m ms].
  - now rewrite alookup_adelete, N.
  - destruct (only_auto _).
    + now rewrite alookup_adelete, N.
    + now rewrite alookup_aset, N.
Qed.

Lemma C03_remove_all_l : forall t p, alookup p (t_remove t p []) = None.
Proof.
  intros t p. unfold t_remove. destruct (alookup p t) as [e|] eqn:E; [|exact E].
  now rewrite alookup_adelete, beqb_refl.
Qed.

Lemma C03_clean_exact_l : forall t prefix q e,
  In (q, e) (t_clean t prefix) <-> In (q, e) t /\ has_prefix q prefix = false.
Proof.
  intros t prefix q e. unfold t_clean. rewrite filter_In. cbn [fst]. now rewrite negb_true_iff.
Qed.

Lemma C03_handle_frame_l : forall c t p h mws ms q,
  beqb q p = false -> alookup q (t_handle c t p h mws ms) = alookup q t.
Proof. intros c t p h mws ms q N. unfold t_handle. now rewrite alookup_aset, N. Qed.

Lemma C03_use_keeps_routes_l : forall c t mws,
  map fst (t_use c t mws) = map fst t /\
  forall p e, In (p, e) (t_use c t mws) -> exists e0, In (p, e0) t /\ map fst e = map fst e0.
Proof.
  intros c t mws. unfold t_use. split.
  - rewrite map_map. cbn [fst]. reflexivity.
  - intros p e H. apply in_map_iff in H. destruct H as [[p0 e0] [E I]].
    cbn [fst snd] in E. inversion E; subst. exists e0. split; [exact I|].
    rewrite map_map. cbn [fst]. reflexivity.
Qed.

(* ---------------------------------------------------------------- non-vacuity *)
Definition ex_cfg : tcfg := {| c_trace := false; c_router := bs "r"; c_ic := [] |}.
Definition ex_table : table :=
  t_handle ex_cfg (t_handle ex_cfg [] (bs "/a") (HUser (bs "h1")) [] [GET; POST]) (bs "/b/{id}") (HUser (bs "h2")) [] [DELETE].

Example ex_spec_methods :
  option_map (spec_methods false) (alookup (bs "/a") ex_table) = Some [GET; HEAD; OPTIONS; POST] /\
  option_map (spec_methods true) (alookup (bs "/b/{id}") ex_table) = Some [DELETE; OPTIONS; TRACE].
Proof. vm_compute. split; reflexivity. Qed.
Example ex_remove : alookup (bs "/a") (t_remove ex_table (bs "/a") []) = None /\
                    alookup (bs "/b/{id}") (t_remove ex_table (bs "/a") []) = alookup (bs "/b/{id}") ex_table /\
                    option_map user_keys (alookup (bs "/a") (t_remove ex_table (bs "/a") [GET])) = Some [POST].
Proof. vm_compute. repeat split. Qed.
Example ex_clean : map fst (t_clean ex_table (bs "/b")) = [bs "/a"].
Proof. vm_compute. reflexivity. Qed.
