(* C04 / C08 over histories: in every tree reachable from [new_tree] by registrations, removals,
   cleans and middleware applications (including rejected calls), every route node below the
   root keeps a handler table whose keys are exactly "registered methods + HEAD iff GET +
   OPTIONS + the 405 key", and its method bit-set renders exactly these keys (+ TRACE when the
   router answers TRACE). *)
From Coq Require Import String.
From Mux Require Import Model.Bytes Model.Regex Model.Context Model.Syntax Model.Tree
  Proofs.BytesFacts Proofs.MatchSound Proofs.Misc2 Proofs.Misc5 Proofs.TreeSafe.

Definition keys (n : node) : list bytes := map fst (nhandlers n).

Definition hs_ok (trace : bool) (n : node) : Prop :=
  (nhandlers n = [] /\ nmidx n = 0) \/
  (NoDup (keys n) /\ (forall k, In k (keys n) -> k = M405 \/ In k methods_list) /\
   In OPTIONS (keys n) /\ In M405 (keys n) /\ (In GET (keys n) <-> In HEAD (keys n)) /\
   (trace = true -> ~ In TRACE (keys n)) /\ nmidx n = node_midx trace (nhandlers n)).

Definition tree_hs_ok (t : tree) : Prop :=
  forall ch, In ch (nchildren (troot t)) -> all_nodes (hs_ok (has_trace t)) ch.

(* ================================================================ accessors *)

Lemma nmidx_set_children : forall n c ix, nmidx (set_children n c ix) = nmidx n.
Proof. intros [s p i h x c0] c ix. reflexivity. Qed.
Lemma nmidx_set_seg : forall n sg, nmidx (set_seg n sg) = nmidx n.
Proof. intros [s p i h x c] sg. reflexivity. Qed.
Lemma nmidx_set_handlers : forall n hs i, nmidx (set_handlers n hs i) = i.
Proof. intros [s p i0 h x c] hs i. reflexivity. Qed.

(* ================================================================ the generic walk *)

Section Gen.
  Variable P : node -> Prop.
  Hypothesis P_ext : forall n n', nhandlers n' = nhandlers n -> nmidx n' = nmidx n -> P n -> P n'.
  Hypothesis P_leaf : forall sg p, P (Node sg p 0 [] [] []).

  Definition kids_ok (n : node) : Prop := forall ch, In ch (nchildren n) -> all_nodes P ch.
  Definition ok_k (k : node -> res node) : Prop :=
    forall ch ch', all_nodes P ch -> k ch = Ok ch' -> all_nodes P ch'.
  Definition same_hm (n' n : node) : Prop := nhandlers n' = nhandlers n /\ nmidx n' = nmidx n.

  Lemma all_of_kids : forall n n', all_nodes P n -> kids_ok n' /\ same_hm n' n -> all_nodes P n'.
  Proof.
    intros n n' Hn [Hk [Eh Em]]. apply all_nodes_intro; [|exact Hk].
    apply (P_ext n n' Eh Em). now apply all_nodes_here.
  Qed.

  Lemma kids_of_all : forall n, all_nodes P n -> kids_ok n.
  Proof. intros n Hn ch Ich. now apply (all_nodes_child _ n). Qed.

  Lemma kids_set_children : forall n cs ix, (forall ch, In ch cs -> all_nodes P ch) ->
    kids_ok (set_children n cs ix) /\ same_hm (set_children n cs ix) n.
  Proof.
    intros n cs ix Hc. split; [|split; [apply nhandlers_set_children | apply nmidx_set_children]].
    unfold kids_ok. rewrite nchildren_set_children. exact Hc.
  Qed.

  Lemma kids_replace : forall n i ch', kids_ok n -> all_nodes P ch' ->
    kids_ok (set_children n (replace_nth i ch' (nchildren n)) (nindexes n)) /\
    same_hm (set_children n (replace_nth i ch' (nchildren n)) (nindexes n)) n.
  Proof.
    intros n i ch' Hn Hc. apply kids_set_children. intros x Ix.
    apply In_replace_nth in Ix. destruct Ix as [->|Ix]; [exact Hc | now apply Hn].
  Qed.

  Lemma kids_sort : forall n keyed n', (forall ch, In ch (map snd keyed) -> all_nodes P ch) ->
    sort_node n keyed = Ok n' -> kids_ok n' /\ same_hm n' n.
  Proof.
    intros n keyed n' Hc H. apply sort_node_inv in H. destruct H as [ix [_ ->]].
    apply kids_set_children. intros ch Ich. apply Hc. now apply In_ssort.
  Qed.

  Lemma all_set_seg : forall n sg, all_nodes P n -> all_nodes P (set_seg n sg).
  Proof.
    intros n sg Hn. apply (all_of_kids n); [exact Hn|]. split.
    - unfold kids_ok. rewrite nchildren_set_seg. now apply kids_of_all.
    - split; [apply nhandlers_set_seg | apply nmidx_set_seg].
  Qed.

  Lemma all_leaf : forall sg p, all_nodes P (Node sg p 0 [] [] []).
  Proof. intros sg p. apply all_nodes_intro; [apply P_leaf | intros ch []]. Qed.

  Lemma all_set_handlers : forall n hs i, all_nodes P n -> P (set_handlers n hs i) ->
    all_nodes P (set_handlers n hs i).
  Proof.
    intros n hs i Hn Hp. apply all_nodes_intro; [exact Hp|].
    rewrite nchildren_set_handlers. now apply kids_of_all.
  Qed.

  (* ---------------------------------------------------------------- registration *)

  Lemma add_segment_kids : forall fuel ic n seg k n', kids_ok n -> ok_k k ->
    add_segment fuel ic n seg k = Ok n' -> kids_ok n' /\ same_hm n' n.
  Proof.
    induction fuel as [|f IH]; intros ic n seg k n' Hn Hk H; [discriminate|].
    rewrite add_segment_S in H. cbv zeta in H.
    destruct (scan_sim seg (nchildren n) 0 None) as [[i|] best] eqn:SC.
    - destruct (nth_error (nchildren n) i) as [ch|] eqn:NTH; [|discriminate].
      apply bind_ok in H. destruct H as [ch' [K H]]. injection H as <-.
      apply kids_replace; [exact Hn|]. apply (Hk ch ch'); [|exact K].
      apply Hn. now apply (nth_error_In _ i).
    - destruct best as [[i l]|].
      + destruct (nth_error (nchildren n) i) as [ch|] eqn:NTH; [|discriminate].
        assert (Hch : all_nodes P ch) by (apply Hn; now apply (nth_error_In _ i)).
        assert (Hcont : ok_k (cont_of f ic seg (Z.to_nat l) k)).
        { intros p p' Hp Hc. unfold cont_of in Hc.
          destruct (Nat.eqb (length (sval seg)) (Z.to_nat l)); [now apply (Hk p p')|].
          apply bind_ok in Hc. destruct Hc as [rest [_ Hc]].
          apply bind_ok in Hc. destruct Hc as [s [_ Hc]].
          apply (all_of_kids p p' Hp). apply (IH ic p s k p'); [now apply kids_of_all | exact Hk | exact Hc]. }
        destruct (Nat.leb (length (sval (nseg ch))) (Z.to_nat l)).
        * apply bind_ok in H. destruct H as [ch' [K H]]. injection H as <-.
          apply kids_replace; [exact Hn|]. now apply (Hcont ch ch').
        * apply bind_ok in H. destruct H as [[s1 s2] [_ H]].
          apply bind_ok in H. destruct H as [ret [SR H]].
          apply bind_ok in H. destruct H as [ret' [K H]].
          assert (Hret : all_nodes P ret).
          { apply (all_of_kids (Node s1 (npat n ++ sval s1) 0 [] [] [])); [apply all_leaf|].
            apply (kids_sort _ _ _) in SR; [exact SR|].
            intros x Ix. rewrite map_snd_with_prio in Ix. destruct Ix as [<-|[]].
            now apply all_set_seg. }
          assert (Hret' : all_nodes P ret') by now apply (Hcont ret ret').
          apply kids_sort in H; [exact H|].
          intros x Ix. apply In_keyed_app in Ix. destruct Ix as [Ix| ->]; [|exact Hret'].
          apply In_remove_nth in Ix. now apply Hn.
      + apply bind_ok in H. destruct H as [nn' [K H]].
        assert (Hnn' : all_nodes P nn').
        { apply (Hk (new_node n seg) nn'); [apply all_leaf | exact K]. }
        apply kids_sort in H; [exact H|].
        intros x Ix. apply In_keyed_app in Ix. destruct Ix as [Ix| ->]; [|exact Hnn'].
        now apply Hn.
  Qed.

  Lemma get_node_kids : forall segs fuel ic n upd n', kids_ok n -> ok_k upd ->
    get_node fuel ic n segs upd = Ok n' -> kids_ok n' /\ same_hm n' n.
  Proof.
    induction segs as [|seg rest IH]; intros fuel ic n upd n' Hn Hk H; simpl in H; [discriminate|].
    destruct rest as [|seg2 rest].
    - exact (add_segment_kids _ _ _ _ _ _ Hn Hk H).
    - apply (add_segment_kids _ _ _ _ _ _ Hn) in H; [exact H|].
      intros ch ch' Hch Hc. apply (all_of_kids ch ch' Hch).
      apply (IH fuel ic ch upd ch'); [now apply kids_of_all | exact Hk | exact Hc].
  Qed.

  (* ---------------------------------------------------------------- removal *)

  Lemma remove_finish_kids : forall n i ch' rm n' rm', kids_ok n -> all_nodes P ch' ->
    remove_finish n i ch' rm = Ok (Some (n', rm')) -> kids_ok n' /\ same_hm n' n.
  Proof.
    intros n i ch' rm n' rm' Hn Hc H. unfold remove_finish in H.
    destruct (prunable ch').
    - cbv zeta in H. apply bind_ok in H. destruct H as [ix [B H]]. injection H as <- _.
      apply kids_set_children. intros x Ix. apply In_remove_nth in Ix. now apply Hn.
    - injection H as <- _. now apply kids_replace.
  Qed.

  Lemma remove_in_kids : forall trace ms,
    (forall ch ch' rm, all_nodes P ch -> remove_at_node trace ms ch = (ch', rm) -> all_nodes P ch') ->
    forall fuel n pattern n' rm, kids_ok n ->
    remove_in fuel trace ms n pattern = Ok (Some (n', rm)) -> kids_ok n' /\ same_hm n' n.
  Proof.
    intros trace ms Hra. induction fuel as [|f IH]; intros n pattern n' rm Hn H; [discriminate|].
    rewrite remove_in_S in H.
    assert (Hgo : forall c i, (forall ch, In ch c -> all_nodes P ch) ->
              remove_go f trace ms n pattern c i = Ok (Some (n', rm)) ->
              kids_ok n' /\ same_hm n' n).
    { induction c as [|ch c IHc]; intros i Hc G; simpl in G; [discriminate|].
      assert (Hch : all_nodes P ch) by (apply Hc; now left).
      assert (Hc' : forall x, In x c -> all_nodes P x) by (intros x Ix; apply Hc; now right).
      destruct (beqb (sval (nseg ch)) pattern).
      - destruct (remove_at_node trace ms ch) as [ch' removed] eqn:RA.
        apply (remove_finish_kids _ _ _ _ _ _ Hn) in G; [exact G|].
        exact (Hra _ _ _ Hch RA).
      - destruct (has_prefix pattern (sval (nseg ch))); [|now apply (IHc (S i))].
        apply bind_ok in G. destruct G as [r [R G]].
        destruct r as [[ch' removed]|]; [|now apply (IHc (S i))].
        apply (remove_finish_kids _ _ _ _ _ _ Hn) in G; [exact G|].
        apply (all_of_kids ch ch' Hch). apply (IH _ _ _ _ (kids_of_all _ Hch) R). }
    apply (Hgo (nchildren n) O); [exact Hn | exact H].
  Qed.

  (* ---------------------------------------------------------------- clean *)

  Lemma clean_in_kids : forall fuel n prefix n', kids_ok n ->
    clean_in fuel n prefix = Ok n' -> kids_ok n' /\ same_hm n' n.
  Proof.
    induction fuel as [|f IH]; intros n prefix n' Hn H; [discriminate|].
    rewrite clean_in_S in H.
    destruct prefix as [|b prefix].
    - injection H as <-. apply kids_set_children. intros ch [].
    - remember (b :: prefix) as pf eqn:Epf. clear Epf.
      assert (Hgo : forall c cs, (forall ch, In ch c -> all_nodes P ch) ->
                clean_go f pf c = Ok cs -> forall x, In x cs -> all_nodes P x).
      { induction c as [|ch c IHc]; intros cs Hc G x Ix; simpl in G.
        - injection G as <-. destruct Ix.
        - assert (Hch : all_nodes P ch) by (apply Hc; now left).
          assert (Hc' : forall y, In y c -> all_nodes P y) by (intros y Iy; apply Hc; now right).
          apply bind_ok in G. destruct G as [ch' [C G]].
          apply bind_ok in G. destruct G as [rest [R G]].
          assert (Hch' : all_nodes P ch').
          { destruct (Nat.ltb (length (sval (nseg ch))) (length pf) && has_prefix pf (sval (nseg ch))).
            - apply (all_of_kids ch ch' Hch). exact (IH _ _ _ (kids_of_all _ Hch) C).
            - injection C as <-. exact Hch. }
          destruct (has_prefix (sval (nseg ch)) pf); injection G as <-.
          + exact (IHc rest Hc' R x Ix).
          + destruct Ix as [<-|Ix]; [exact Hch' | exact (IHc rest Hc' R x Ix)]. }
      apply bind_ok in H. destruct H as [cs [G H]].
      apply bind_ok in H. destruct H as [ix [B H]]. injection H as <-.
      apply kids_set_children. apply (Hgo (nchildren n) cs); [exact Hn | exact G].
  Qed.
End Gen.

(* ================================================================ facts about method names *)

Lemma method_bit_in_In : forall l b m, method_bit_in l b m <> 0 -> In m l.
Proof.
  induction l as [|x l IH]; intros b m H; simpl in H; [now elim H|].
  destruct (beqb_spec x m) as [->|N]; [now left | right; now apply (IH (2 * b))].
Qed.

Lemma is_method_In : forall m, is_method m = true -> In m methods_list.
Proof.
  intros m H. unfold is_method in H. apply negb_true_iff, N.eqb_neq in H.
  exact (method_bit_in_In _ _ _ H).
Qed.

Lemma cst_In : forall x l, mem x l = true -> In x l.
Proof. intros x l H. now apply mem_In. Qed.

Lemma cst_ne : forall a b : bytes, beqb a b = false -> a <> b.
Proof. intros a b H. now apply beqb_neq. Qed.

Lemma ahas_In : forall (l : list (bytes * hterm)) k, ahas k l = true <-> In k (akeys l).
Proof.
  intros l k. unfold ahas. destruct (alookup k l) as [v|] eqn:E.
  - split; [intros _ | reflexivity]. apply alookup_In in E.
    unfold akeys. change k with (fst (k, v)). now apply in_map.
  - split; [discriminate|]. intro I. apply alookup_None in E. contradiction.
Qed.

Lemma ahas_notIn : forall (l : list (bytes * hterm)) k, ahas k l = false <-> ~ In k (akeys l).
Proof.
  intros l k. rewrite <- ahas_In. destruct (ahas k l); split; congruence.
Qed.

Lemma not_auto_facts : forall m, is_auto m = false -> m <> OPTIONS /\ m <> HEAD /\ m <> M405.
Proof.
  intros m H. unfold is_auto in H. apply orb_false_iff in H. destruct H as [H H3].
  apply orb_false_iff in H. destruct H as [H1 H2].
  repeat split; now apply beqb_neq.
Qed.

(* ================================================================ the table of one node *)

Definition core (trace : bool) (hs : list (bytes * hterm)) : Prop :=
  NoDup (akeys hs) /\ (forall k, In k (akeys hs) -> k = M405 \/ In k methods_list) /\
  (In GET (akeys hs) <-> In HEAD (akeys hs)) /\ (trace = true -> ~ In TRACE (akeys hs)).

Definition full (trace : bool) (hs : list (bytes * hterm)) : Prop :=
  core trace hs /\ In OPTIONS (akeys hs) /\ In M405 (akeys hs).

Lemma hs_ok_iff : forall trace n, hs_ok trace n <->
  ((nhandlers n = [] /\ nmidx n = 0) \/
   (full trace (nhandlers n) /\ nmidx n = node_midx trace (nhandlers n))).
Proof.
  intros trace n. unfold hs_ok, full, core, keys, akeys. tauto.
Qed.

Lemma core_nil : forall trace, core trace [].
Proof.
  intro trace. unfold core. simpl. repeat split; try tauto. constructor.
Qed.

Lemma hs_ok_core : forall trace n, hs_ok trace n -> core trace (nhandlers n).
Proof.
  intros trace n H. apply hs_ok_iff in H. destruct H as [[-> _]|[[C _] _]]; [apply core_nil | exact C].
Qed.

Lemma hs_ok_ext : forall trace n n', nhandlers n' = nhandlers n -> nmidx n' = nmidx n ->
  hs_ok trace n -> hs_ok trace n'.
Proof.
  intros trace n n' Eh Em H. unfold hs_ok, keys in *. rewrite Eh, Em. exact H.
Qed.

Lemma hs_ok_leaf : forall trace sg p, hs_ok trace (Node sg p 0 [] [] []).
Proof. intros trace sg p. left. split; reflexivity. Qed.

Lemma node_midx_nil : forall trace, node_midx trace [] = 0.
Proof. intros [|]; reflexivity. Qed.

(* ---------------------------------------------------------------- addMethods *)

Lemma install_keys : forall h pattern router mws ms hs x,
  In x (akeys (install_methods h pattern router mws ms hs)) <->
  (In x (akeys hs) \/ In x ms \/ (x = HEAD /\ In GET ms)).
Proof.
  intros h pattern router mws. induction ms as [|m ms IH]; intros hs x; cbn [install_methods In].
  - tauto.
  - rewrite IH, akeys_aset_in. destruct (beqb_spec m GET) as [->|N].
    + rewrite akeys_aset_in. intuition.
    + intuition congruence.
Qed.

Lemma install_nodup : forall h pattern router mws ms hs, NoDup (akeys hs) ->
  NoDup (akeys (install_methods h pattern router mws ms hs)).
Proof.
  intros h pattern router mws. induction ms as [|m ms IH]; intros hs ND; cbn [install_methods]; [exact ND|].
  apply IH, nodup_aset. destruct (beqb m GET); [now apply nodup_aset | exact ND].
Qed.

Lemma ensure_keys : forall k (v : hterm) l x,
  In x (akeys (if ahas k l then l else aset k v l)) <-> (x = k \/ In x (akeys l)).
Proof.
  intros k v l x. destruct (ahas k l) eqn:E; [|apply akeys_aset_in].
  apply ahas_In in E. split; [tauto | intros [->|H]; assumption].
Qed.

Lemma ensure_nodup : forall k (v : hterm) l, NoDup (akeys l) ->
  NoDup (akeys (if ahas k l then l else aset k v l)).
Proof. intros k v l ND. destruct (ahas k l); [exact ND | now apply nodup_aset]. Qed.

Definition add_hs (router : bytes) (h : hterm) (pattern : bytes) (mws ms : list bytes)
  (hs : list (bytes * hterm)) : list (bytes * hterm) :=
  let hs1 := install_methods h pattern router mws ms hs in
  let hs2 := if ahas OPTIONS hs1 then hs1 else aset OPTIONS (apply_mw HOptions OPTIONS pattern router mws) hs1 in
  if ahas M405 hs2 then hs2 else aset M405 (apply_mw HNotAllowed M405 pattern router mws) hs2.

Lemma add_methods_eq : forall trace router h pattern mws ms n,
  add_methods trace router h pattern mws ms n =
  (do _ <- check_methods trace (nhandlers n) [] ms;
   Ok (set_handlers n (add_hs router h pattern mws ms (nhandlers n))
         (node_midx trace (add_hs router h pattern mws ms (nhandlers n))))).
Proof. reflexivity. Qed.

Lemma add_hs_keys : forall router h pattern mws ms hs x,
  In x (akeys (add_hs router h pattern mws ms hs)) <->
  (x = M405 \/ x = OPTIONS \/ In x (akeys hs) \/ In x ms \/ (x = HEAD /\ In GET ms)).
Proof.
  intros router h pattern mws ms hs x. unfold add_hs. cbv zeta.
  rewrite ensure_keys, ensure_keys, install_keys. tauto.
Qed.

Lemma add_hs_nodup : forall router h pattern mws ms hs, NoDup (akeys hs) ->
  NoDup (akeys (add_hs router h pattern mws ms hs)).
Proof.
  intros router h pattern mws ms hs ND. unfold add_hs. cbv zeta.
  now apply ensure_nodup, ensure_nodup, install_nodup.
Qed.

Lemma add_hs_full : forall trace router h pattern mws ms hs, core trace hs ->
  (forall m, In m ms -> is_method m = true /\ beqb m OPTIONS = false /\ beqb m HEAD = false /\
                        (trace && beqb m TRACE) = false /\ ahas m hs = false) ->
  full trace (add_hs router h pattern mws ms hs).
Proof.
  intros trace router h pattern mws ms hs [ND [Sub [GH NT]]] A.
  assert (K := add_hs_keys router h pattern mws ms hs).
  assert (NoHead : ~ In HEAD ms).
  { intro I. destruct (A HEAD I) as [_ [_ [E _]]]. vm_compute in E. discriminate E. }
  split; [split; [|split; [|split]]|split].
  - now apply add_hs_nodup.
  - intros k Ik. apply K in Ik. destruct Ik as [->|[->|[I|[I|[-> _]]]]].
    + now left.
    + right. apply cst_In. reflexivity.
    + now apply Sub.
    + right. apply is_method_In. now destruct (A k I).
    + right. apply cst_In. reflexivity.
  - rewrite (K GET), (K HEAD). split.
    + intros [E|[E|[I|[I|[E _]]]]].
      * exfalso. revert E. apply cst_ne. reflexivity.
      * exfalso. revert E. apply cst_ne. reflexivity.
      * right. right. left. now apply GH.
      * right. right. right. right. split; [reflexivity | exact I].
      * exfalso. revert E. apply cst_ne. reflexivity.
    + intros [E|[E|[I|[I|[_ I]]]]].
      * exfalso. revert E. apply cst_ne. reflexivity.
      * exfalso. revert E. apply cst_ne. reflexivity.
      * right. right. left. now apply GH.
      * contradiction.
      * right. right. right. left. exact I.
  - intros Et It. apply K in It. destruct It as [E|[E|[I|[I|[E _]]]]].
    + revert E. apply cst_ne. reflexivity.
    + revert E. apply cst_ne. reflexivity.
    + exact (NT Et I).
    + destruct (A TRACE I) as [_ [_ [_ [E _]]]]. rewrite Et in E. vm_compute in E. discriminate E.
    + revert E. apply cst_ne. reflexivity.
  - apply K. right. now left.
  - apply K. now left.
Qed.

Lemma add_methods_hs_ok : forall trace router h pattern mws ms n n',
  core trace (nhandlers n) -> add_methods trace router h pattern mws ms n = Ok n' -> hs_ok trace n'.
Proof.
  intros trace router h pattern mws ms n n' Hc H. rewrite add_methods_eq in H.
  apply bind_ok in H. destruct H as [u [C H]]. destruct u.
  apply C17_check_methods_ok_iff_l in C. destruct C as [_ A]. injection H as <-.
  apply hs_ok_iff. right. rewrite nhandlers_set_handlers, nmidx_set_handlers.
  split; [|reflexivity]. now apply add_hs_full.
Qed.

Lemma add_methods_ok_k : forall trace router h pattern mws ms,
  ok_k (hs_ok trace) (add_methods trace router h pattern mws ms).
Proof.
  intros trace router h pattern mws ms n n' Hn H.
  assert (Hok : hs_ok trace n') by (apply (add_methods_hs_ok trace router h pattern mws ms n n'); [apply hs_ok_core; now apply all_nodes_here | exact H]).
  rewrite add_methods_eq in H. apply bind_ok in H. destruct H as [u [_ H]]. injection H as E.
  rewrite <- E in *. apply all_set_handlers; [exact Hn | exact Hok].
Qed.

(* ---------------------------------------------------------------- Remove *)

Definition rm_step (m : bytes) (hs : list (bytes * hterm)) : list (bytes * hterm) :=
  let hs1 := if beqb m GET then adelete HEAD hs else hs in
  if ahas m hs1 then adelete m hs1 else hs1.

Lemma remove_methods_inv : forall (Q : list (bytes * hterm) -> Prop),
  (forall m hs, is_auto m = false -> Q hs -> Q (rm_step m hs)) ->
  forall ms hs rm, Q hs -> Q (fst (remove_methods ms hs rm)).
Proof.
  intros Q Hstep. induction ms as [|m ms IH]; intros hs rm HQ; cbn [remove_methods]; [exact HQ|].
  destruct (is_auto m) eqn:A; [now apply IH|].
  pose proof (Hstep m hs A HQ) as S. unfold rm_step in S. cbv zeta in S.
  destruct (ahas m (if beqb m GET then adelete HEAD hs else hs)); apply IH; exact S.
Qed.

Lemma rm_step_keys : forall m hs x,
  In x (akeys (rm_step m hs)) <-> (In x (akeys hs) /\ x <> m /\ ~ (m = GET /\ x = HEAD)).
Proof.
  intros m hs x. unfold rm_step. cbv zeta.
  assert (E1 : forall y, In y (akeys (if beqb m GET then adelete HEAD hs else hs)) <->
                         (In y (akeys hs) /\ ~ (m = GET /\ y = HEAD))).
  { intro y. destruct (beqb_spec m GET) as [->|N].
    - rewrite akeys_adelete_in. tauto.
    - tauto. }
  destruct (ahas m (if beqb m GET then adelete HEAD hs else hs)) eqn:E.
  - rewrite akeys_adelete_in, E1. tauto.
  - apply ahas_notIn in E. rewrite E1. split.
    + intros [I N]. split; [exact I|]. split; [|exact N].
      intros ->. apply E. apply E1. split; assumption.
    + tauto.
Qed.

Lemma rm_step_nodup : forall m hs, NoDup (akeys hs) -> NoDup (akeys (rm_step m hs)).
Proof.
  intros m hs ND. unfold rm_step. cbv zeta.
  assert (ND1 : NoDup (akeys (if beqb m GET then adelete HEAD hs else hs))).
  { destruct (beqb m GET); [now apply nodup_adelete | exact ND]. }
  destruct (ahas m (if beqb m GET then adelete HEAD hs else hs)); [now apply nodup_adelete | exact ND1].
Qed.

Lemma rm_step_full : forall trace m hs, is_auto m = false -> full trace hs -> full trace (rm_step m hs).
Proof.
  intros trace m hs A [[ND [Sub [GH NT]]] [IO I4]].
  destruct (not_auto_facts m A) as [NO [NH N4]].
  assert (K := rm_step_keys m hs).
  split; [split; [|split; [|split]]|split].
  - now apply rm_step_nodup.
  - intros k Ik. apply K in Ik. now apply Sub.
  - rewrite (K GET), (K HEAD). destruct (beqb_spec m GET) as [->|N].
    + split; [intros [_ [E _]]; now elim E | intros [_ [_ E]]; elim E; now split].
    + split.
      * intros [I _]. split; [now apply GH|]. split; [congruence | tauto].
      * intros [I _]. split; [now apply GH|]. split; [congruence | tauto].
  - intros Et It. apply K in It. exact (NT Et (proj1 It)).
  - apply K. split; [exact IO|]. split; [congruence|].
    intros [_ E]. revert E. apply cst_ne. reflexivity.
  - apply K. split; [exact I4|]. split; [congruence|].
    intros [_ E]. revert E. apply cst_ne. reflexivity.
Qed.

Lemma remove_methods_full : forall trace ms hs rm, full trace hs ->
  full trace (fst (remove_methods ms hs rm)).
Proof.
  intros trace ms hs rm H. apply (remove_methods_inv (full trace)); [|exact H].
  intros m hs0 A H0. now apply rm_step_full.
Qed.

Lemma remove_at_node_hs_ok : forall trace ms n n' rm, hs_ok trace n ->
  remove_at_node trace ms n = (n', rm) -> hs_ok trace n'.
Proof.
  intros trace ms n n' rm Hn H. unfold remove_at_node in H.
  assert (Hempty : hs_ok trace (set_handlers n [] (node_midx trace []))).
  { left. rewrite nhandlers_set_handlers, nmidx_set_handlers. split; [reflexivity | apply node_midx_nil]. }
  destruct ms as [|m ms].
  - injection H as <- _. exact Hempty.
  - remember (m :: ms) as ms0 eqn:Ems. clear Ems.
    pose proof (remove_methods_full trace ms0 (nhandlers n) []) as Efull.
    pose proof (remove_methods_nil ms0 []) as Enil.
    destruct (remove_methods ms0 (nhandlers n) []) as [hs1 rm1] eqn:RM. cbn [fst] in Efull.
    destruct (Nat.eqb (length hs1) 2 && ahas OPTIONS hs1 && ahas M405 hs1).
    + injection H as <- _. exact Hempty.
    + injection H as <- _. apply hs_ok_iff in Hn. destruct Hn as [[Hh _]|[Hf _]].
      * rewrite Hh in RM. rewrite RM in Enil. cbn [fst] in Enil. subst hs1. exact Hempty.
      * apply hs_ok_iff. right. rewrite nhandlers_set_handlers, nmidx_set_handlers.
        split; [now apply Efull | reflexivity].
Qed.

Lemma remove_at_node_all : forall trace ms ch ch' rm, all_nodes (hs_ok trace) ch ->
  remove_at_node trace ms ch = (ch', rm) -> all_nodes (hs_ok trace) ch'.
Proof.
  intros trace ms ch ch' rm Hch H.
  assert (Hok : hs_ok trace ch') by (apply (remove_at_node_hs_ok trace ms ch ch' rm); [now apply all_nodes_here | exact H]).
  unfold remove_at_node in H.
  destruct (match ms with
            | [] => ([], akeys (nhandlers ch))
            | _ :: _ =>
              let '(hs1, rm0) := remove_methods ms (nhandlers ch) [] in
              if Nat.eqb (length hs1) 2 && ahas OPTIONS hs1 && ahas M405 hs1 then ([], rm0) else (hs1, rm0)
            end) as [hs removed].
  injection H as E _. rewrite <- E in *. now apply all_set_handlers.
Qed.

(* ---------------------------------------------------------------- middleware *)

Lemma map_fst_wrap : forall (g : bytes * hterm -> hterm) (h : list (bytes * hterm)),
  map fst (map (fun kv => (fst kv, g kv)) h) = map fst h.
Proof.
  intros g h. induction h as [|kv h IH]; simpl; [reflexivity | now rewrite IH].
Qed.

Lemma hs_ok_wrap : forall trace s p i h x c (g : bytes * hterm -> hterm) x' c',
  hs_ok trace (Node s p i h x c) ->
  hs_ok trace (Node s p i (map (fun kv => (fst kv, g kv)) h) x' c').
Proof.
  intros trace s p i h x c g x' c' H. unfold hs_ok, keys in *. cbn [nhandlers nmidx] in *.
  rewrite map_fst_wrap. destruct H as [[-> Ei]|H].
  - left. split; [reflexivity | exact Ei].
  - right. rewrite (node_midx_keys trace (map _ h)), map_fst_wrap, <- node_midx_keys. exact H.
Qed.

Lemma apply_mw_node_all : forall trace fuel router mws n, all_nodes (hs_ok trace) n ->
  all_nodes (hs_ok trace) (apply_mw_node fuel router mws n).
Proof.
  intros trace. induction fuel as [|f IH]; intros router mws n Hn; [exact Hn|].
  pose proof (all_nodes_here _ _ Hn) as Hh.
  destruct n as [s p i h x c]. cbn [apply_mw_node]. apply all_nodes_intro.
  - apply (hs_ok_wrap trace s p i h x c (fun kv => apply_mw (snd kv) (fst kv) p router mws)). exact Hh.
  - cbn [nchildren]. intros ch Ich. apply in_map_iff in Ich. destruct Ich as [ch0 [<- Ich]].
    apply IH. apply (all_nodes_child _ _ _ Hn). exact Ich.
Qed.

(* ================================================================ the tree operations *)

Lemma tree_build_methods_hs : forall t root num ms,
  kids_ok (hs_ok (has_trace t)) root -> tree_hs_ok (tree_build_methods t root num ms).
Proof.
  intros t root num ms Hk. unfold tree_hs_ok.
  change (has_trace (tree_build_methods t root num ms)) with (has_trace t).
  unfold tree_build_methods. cbn [troot]. rewrite nchildren_set_handlers. exact Hk.
Qed.

Theorem hs_new_tree : forall name ic trace, tree_hs_ok (new_tree name ic trace).
Proof. intros name ic trace ch I. destruct I. Qed.

Lemma tree_add_inv : forall t p h mws ms t', tree_add t p h mws ms = Ok t' ->
  exists segs ms' root',
    get_node (tree_fuel t + length p + 2) (tic t) (troot t) segs
      (add_methods (has_trace t) (tname t) h p mws ms') = Ok root' /\
    t' = tree_build_methods t root' 1 ms'.
Proof.
  intros t p h mws ms t' H. unfold tree_add in H.
  apply bind_ok in H. destruct H as [amb [_ H]].
  assert (H' : (do segs <- split (tic t) p;
                do _ <- check_methods (has_trace t)
                  (match find (tree_fuel t + length p + 2) (troot t) p with
                   | Some n => nhandlers n | None => [] end) []
                  (match ms with [] => any_methods | _ => ms end);
                do root' <- get_node (tree_fuel t + length p + 2) (tic t) (troot t) segs
                  (add_methods (has_trace t) (tname t) h p mws (match ms with [] => any_methods | _ => ms end));
                Ok (tree_build_methods t root' 1 (match ms with [] => any_methods | _ => ms end))) = Ok t').
  { destruct amb as [[p0 [|]]|]; [discriminate | exact H | exact H]. }
  clear H. apply bind_ok in H'. destruct H' as [segs [_ H]].
  apply bind_ok in H. destruct H as [u [_ H]].
  apply bind_ok in H. destruct H as [root' [G H]]. injection H as <-.
  exists segs, (match ms with [] => any_methods | _ => ms end), root'. split; [exact G | reflexivity].
Qed.

Theorem hs_add : forall t p h mws ms t', tree_hs_ok t -> tree_add t p h mws ms = Ok t' -> tree_hs_ok t'.
Proof.
  intros t p h mws ms t' Ht H. apply tree_add_inv in H. destruct H as [segs [ms' [root' [G ->]]]].
  apply tree_build_methods_hs.
  apply (get_node_kids (hs_ok (has_trace t)) (hs_ok_ext _) (hs_ok_leaf _)) in G;
    [exact (proj1 G) | exact Ht | apply add_methods_ok_k].
Qed.

Lemma tree_remove_inv : forall t p ms t', tree_remove t p ms = Ok t' ->
  t' = t \/ exists root' removed,
    remove_in (tree_fuel t) (has_trace t) ms (troot t) p = Ok (Some (root', removed)) /\
    t' = tree_build_methods t root' (-1) (user_methods removed).
Proof.
  intros t p ms t' H. unfold tree_remove in H.
  apply bind_ok in H. destruct H as [r [R H]].
  destruct r as [[root' removed]|].
  - injection H as <-. right. exists root', removed. split; [exact R | reflexivity].
  - injection H as <-. now left.
Qed.

Theorem hs_remove : forall t p ms t', tree_hs_ok t -> tree_remove t p ms = Ok t' -> tree_hs_ok t'.
Proof.
  intros t p ms t' Ht H. apply tree_remove_inv in H.
  destruct H as [->|[root' [removed [R ->]]]]; [exact Ht|].
  apply tree_build_methods_hs.
  apply (remove_in_kids (hs_ok (has_trace t)) (hs_ok_ext _) (has_trace t) ms
           (remove_at_node_all (has_trace t) ms)) in R; [exact (proj1 R) | exact Ht].
Qed.

Lemma tree_clean_inv : forall t prefix t', tree_clean t prefix = Ok t' ->
  exists root', clean_in (tree_fuel t) (troot t) prefix = Ok root' /\
    t' = tree_build_methods
           {| troot := root'; tcounts := count_methods (tree_fuel t) root' []; tname := tname t;
              tnotfound := tnotfound t; ttrace := ttrace t; tic := tic t |} root' 0 [].
Proof.
  intros t prefix t' H. unfold tree_clean in H.
  apply bind_ok in H. destruct H as [root' [C H]]. injection H as <-.
  exists root'. split; [exact C | reflexivity].
Qed.

Theorem hs_clean : forall t prefix t', tree_hs_ok t -> tree_clean t prefix = Ok t' -> tree_hs_ok t'.
Proof.
  intros t prefix t' Ht H. apply tree_clean_inv in H. destruct H as [root' [C ->]].
  apply tree_build_methods_hs.
  change (kids_ok (hs_ok (has_trace t)) root').
  apply (clean_in_kids (hs_ok (has_trace t)) (hs_ok_ext _)) in C; [exact (proj1 C) | exact Ht].
Qed.

Lemma has_trace_apply_mw : forall t mws, has_trace (tree_apply_mw t mws) = has_trace t.
Proof. intros t mws. unfold has_trace, tree_apply_mw. cbn [ttrace]. now destruct (ttrace t). Qed.

Theorem hs_use : forall t mws, tree_hs_ok t -> tree_hs_ok (tree_apply_mw t mws).
Proof.
  intros t mws Ht. unfold tree_hs_ok. rewrite has_trace_apply_mw.
  unfold tree_apply_mw, tree_fuel. cbn [troot].
  unfold tree_hs_ok in Ht. destruct (troot t) as [s p i h x c]. cbn [apply_mw_node nchildren] in *.
  intros ch Ich. apply in_map_iff in Ich. destruct Ich as [ch0 [<- Ich]].
  apply apply_mw_node_all. now apply Ht.
Qed.

(* ================================================================ histories *)

Lemma has_trace_tstep : forall t op, has_trace (tstep t op) = has_trace t.
Proof.
  intros t op. destruct op as [p h mws ms|p ms|prefix|mws]; cbn [tstep].
  - destruct (tree_add t p h mws ms) as [t'|e|s0|] eqn:E; cbn [keep]; try reflexivity.
    apply tree_add_inv in E. destruct E as [segs [ms' [root' [_ ->]]]]. reflexivity.
  - destruct (tree_remove t p ms) as [t'|e|s0|] eqn:E; cbn [keep]; try reflexivity.
    apply tree_remove_inv in E. destruct E as [->|[root' [removed [_ ->]]]]; reflexivity.
  - destruct (tree_clean t prefix) as [t'|e|s0|] eqn:E; cbn [keep]; try reflexivity.
    apply tree_clean_inv in E. destruct E as [root' [_ ->]]. reflexivity.
  - apply has_trace_apply_mw.
Qed.

Lemma has_trace_hist : forall hist t, has_trace (fold_left tstep hist t) = has_trace t.
Proof.
  induction hist as [|op hist IH]; intro t; simpl; [reflexivity|].
  now rewrite IH, has_trace_tstep.
Qed.

Lemma has_trace_new_tree : forall name ic trace, has_trace (new_tree name ic trace) = trace.
Proof. intros name ic [|]; reflexivity. Qed.

Lemma tstep_hs : forall t op, tree_hs_ok t -> tree_hs_ok (tstep t op).
Proof.
  intros t op Ht. destruct op as [p h mws ms|p ms|prefix|mws]; cbn [tstep].
  - destruct (tree_add t p h mws ms) as [t'|e|s0|] eqn:E; cbn [keep]; try exact Ht.
    exact (hs_add _ _ _ _ _ _ Ht E).
  - destruct (tree_remove t p ms) as [t'|e|s0|] eqn:E; cbn [keep]; try exact Ht.
    exact (hs_remove _ _ _ _ Ht E).
  - destruct (tree_clean t prefix) as [t'|e|s0|] eqn:E; cbn [keep]; try exact Ht.
    exact (hs_clean _ _ _ Ht E).
  - now apply hs_use.
Qed.

Lemma hist_hs : forall hist t, tree_hs_ok t -> tree_hs_ok (fold_left tstep hist t).
Proof.
  induction hist as [|op hist IH]; intros t Ht; simpl; [exact Ht|].
  apply IH. now apply tstep_hs.
Qed.

Theorem hs_reachable : forall name ic trace hist,
  tree_hs_ok (fold_left tstep hist (new_tree name ic trace)).
Proof. intros name ic trace hist. apply hist_hs, hs_new_tree. Qed.

Lemma all_nodes_desc : forall (P : node -> Prop) ch n, all_nodes P ch -> desc ch n -> P n.
Proof.
  intros P ch n Hall D. induction D as [a c I|a c d I D IH].
  - apply all_nodes_here. now apply (all_nodes_child _ a).
  - apply IH. now apply (all_nodes_child _ a).
Qed.

Lemma tree_hs_node : forall t n, tree_hs_ok t ->
  (exists ch, In ch (nchildren (troot t)) /\ (n = ch \/ desc ch n)) -> hs_ok (has_trace t) n.
Proof.
  intros t n Ht [ch [Ich [->|D]]].
  - apply all_nodes_here. now apply Ht.
  - apply (all_nodes_desc _ ch); [now apply Ht | exact D].
Qed.

Lemma hs_ok_allow : forall trace n, hs_ok trace n -> nhandlers n <> [] ->
  forall m, In m (methods_of (nmidx n)) <->
    ((In m (keys n) /\ m <> M405) \/ (trace = true /\ m = TRACE)).
Proof.
  intros trace n H Hne m. destruct H as [[E _]|[ND [Sub [_ [_ [_ [NT ->]]]]]]]; [contradiction|].
  rewrite (C04_bits_render_l trace (nhandlers n) ND Sub NT m). unfold keys, M405. tauto.
Qed.

Theorem allow_exact_reachable : forall name ic trace hist n,
  let t := fold_left tstep hist (new_tree name ic trace) in
  (exists ch, In ch (nchildren (troot t)) /\ (n = ch \/ desc ch n)) -> nhandlers n <> [] ->
  forall m, In m (methods_of (nmidx n)) <->
    ((In m (keys n) /\ m <> M405) \/ (has_trace t = true /\ m = TRACE)).
Proof.
  intros name ic trace hist n t Hin Hne. apply hs_ok_allow; [|exact Hne].
  apply tree_hs_node; [apply hs_reachable | exact Hin].
Qed.

Theorem head_iff_get_reachable : forall name ic trace hist n,
  let t := fold_left tstep hist (new_tree name ic trace) in
  (exists ch, In ch (nchildren (troot t)) /\ (n = ch \/ desc ch n)) -> nhandlers n <> [] ->
  (In HEAD (keys n) <-> In GET (keys n)) /\ In OPTIONS (keys n) /\ In M405 (keys n).
Proof.
  intros name ic trace hist n t Hin Hne.
  assert (H : hs_ok (has_trace t) n) by (apply tree_hs_node; [apply hs_reachable | exact Hin]).
  destruct H as [[E _]|[_ [_ [IO [I4 [GH _]]]]]]; [contradiction|].
  split; [tauto | split; assumption].
Qed.

Theorem allow_header_is_join : forall idx, allow_of idx = join (bs ", ") (methods_of idx).
Proof. reflexivity. Qed.

(* ================================================================ examples *)

Definition ex_allow_hist : list top :=
  [ OAdd (bs "/a") (HUser (bs "h1")) [] [GET];
    OAdd (bs "/a") (HUser (bs "h2")) [] [POST];
    ORemove (bs "/a") [GET] ].

Definition ex_allow_tree : tree := fold_left tstep ex_allow_hist (new_tree (bs "r") [] true).

Example ex_allow_accepted : all_accepted (new_tree (bs "r") [] true) ex_allow_hist = true.
Proof. vm_compute. reflexivity. Qed.

(* after Handle GET, Handle POST, Remove GET on a TRACE-answering router the node renders
   OPTIONS, POST, TRACE: HEAD went away with GET *)
Example ex_allow_methods :
  match nchildren (troot ex_allow_tree) with
  | [n] => methods_of (nmidx n) = [OPTIONS; POST; TRACE] /\
           allow_of (nmidx n) = bs "OPTIONS, POST, TRACE" /\
           keys n = [OPTIONS; M405; POST]
  | _ => False
  end.
Proof. vm_compute. repeat split. Qed.

(* before the removal HEAD is there together with GET *)
Example ex_allow_methods_before :
  match nchildren (troot (fold_left tstep (firstn 2 ex_allow_hist) (new_tree (bs "r") [] true))) with
  | [n] => methods_of (nmidx n) = [GET; HEAD; OPTIONS; POST; TRACE]
  | _ => False
  end.
Proof. vm_compute. reflexivity. Qed.

(* the premises of the reachable-state theorems are satisfiable: the node of the example is a
   child of the root with a non-empty table *)
Definition ex_allow_node : node := hd (troot ex_allow_tree) (nchildren (troot ex_allow_tree)).

Example ex_allow_premises :
  (exists ch, In ch (nchildren (troot ex_allow_tree)) /\ (ex_allow_node = ch \/ desc ch ex_allow_node)) /\
  nhandlers ex_allow_node <> [].
Proof.
  split.
  - exists ex_allow_node. split; [vm_compute; left; reflexivity | left; reflexivity].
  - vm_compute. discriminate.
Qed.

(* a rejected call (HEAD is reserved) leaves the table as it was *)
Example ex_allow_rejected :
  tree_add ex_allow_tree (bs "/a") (HUser (bs "h3")) [] [HEAD] = Err (bs "reserved-method") /\
  tstep ex_allow_tree (OAdd (bs "/a") (HUser (bs "h3")) [] [HEAD]) = ex_allow_tree.
Proof. vm_compute. split; reflexivity. Qed.
