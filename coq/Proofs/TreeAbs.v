(* C03 "THE TREE IS THE TABLE": the tree model refines the abstract route table machine of
   Spec/Table.v over every history of registrations, removals, cleans and middleware applications
   whose registered patterns are accepted by the specification's tokenizer ([hist_tokens]).
   - [abs_tree t] : one row (npat n, nhandlers n) for every node n below the root with handlers.
   - [tab_step] : what the test oracle does (t_handle exactly when Tree.Add accepted the call,
     t_remove / t_clean / t_use always); [lock_run] runs tree and table in lock step.
   - The invariant is [Permutation (abs_tree t) T] (lock_perm): the rows are the SAME rows (same
     pattern, the same handler association list in the same order, the same handler terms), the
     row ORDER differs (DFS order of the sorted tree versus registration order).  With one row per
     pattern (pattern_once_reachable) this gives plain equality of [alookup p].
   - Part C (add), D (remove), E (clean), F (use): one commutation lemma per operation, for any
     tree with the invariants (no history needed): add_step, remove_step, clean_step, use_step.
   - Part H: what Tree.Handler serves from a node below the root is the table's entry; FALSE at
     the root (OPTIONS "*", TRACE, the empty path): C03_served_handler_is_table_entry_refuted_l.
   - Part I: Routes() = spec_routes as LISTS when no route "*" is registered; with a route "*"
     the two differ (C03_routes_exact_refuted_l).
   Theorems are re-exported by Props/C03abs.v. *)
From Coq Require Import String Permutation.
From Mux Require Import Model.Bytes Model.Regex Model.Context Model.Syntax Model.Tree Spec.Table
  Proofs.BytesFacts Proofs.MatchSound Proofs.Misc2 Proofs.TreeSafe Proofs.TreeAllow Proofs.TreeText
  Proofs.TreeOnion Proofs.TreeFind Proofs.TokensSplit Proofs.TreeGone.
From Mux Require Proofs.Misc4 Proofs.Misc5 Proofs.TreeLit Proofs.TreeCount.

Local Open Scope nat_scope.

(* ================================================================ definitions *)

(* the table row of one node: nothing for a node without handlers *)
Definition own (n : node) : table :=
  match nhandlers n with [] => [] | _ => [(npat n, nhandlers n)] end.

(* the rows of [n] and of every node below it, in DFS order *)
Fixpoint lv (n : node) : table :=
  let 'Node _ p _ h _ c := n in
  (match h with [] => [] | _ => [(p, h)] end) ++
  (fix go (l : list node) : table := match l with [] => [] | x :: l' => lv x ++ go l' end) c.

Definition lvs (l : list node) : table := flat_map lv l.

(* the rows of the nodes strictly below [n] *)
Definition below (n : node) : table := lvs (nchildren n).

(* the abstraction function: every node below the root with a non-empty handler table *)
Definition abs_tree (t : tree) : table := below (troot t).

(* what the test oracle does to its table when the implementation is at [t] *)
Definition tab_step (c : tcfg) (T : table) (t : tree) (op : top) : table :=
  match op with
  | OAdd p h mws ms => match tree_add t p h mws ms with Ok _ => t_handle c T p h mws ms | _ => T end
  | ORemove p ms => t_remove T p ms
  | OClean prefix => t_clean T prefix
  | OUse mws => t_use c T mws
  end.

(* both machines in lock step *)
Definition lock_step (c : tcfg) (s : tree * table) (op : top) : tree * table :=
  (tstep (fst s) op, tab_step c (snd s) (fst s) op).

Definition lock_run (c : tcfg) (hist : list top) (t0 : tree) : tree * table :=
  fold_left (lock_step c) hist (t0, []).

Definition cfg_of (name : bytes) (ic : icpts) (trace : bool) : tcfg :=
  {| c_trace := trace; c_router := name; c_ic := ic |}.

(* the table the oracle holds after [hist], starting from the empty router *)
Definition table_of (name : bytes) (ic : icpts) (trace : bool) (hist : list top) : table :=
  snd (lock_run (cfg_of name ic trace) hist (new_tree name ic trace)).

(* ================================================================ Part A : association lists up to order *)
Section AssocPerm.
Context {V : Type}.
Implicit Types (T A B rest : list (bytes * V)).

Lemma perm_keys : forall A B, Permutation A B -> Permutation (akeys A) (akeys B).
Proof. intros A B P. unfold akeys. now apply Permutation_map. Qed.

Lemma perm_alookup : forall A B p, NoDup (akeys A) -> Permutation A B -> alookup p A = alookup p B.
Proof.
  intros A B p ND P. destruct (alookup p A) as [v|] eqn:E.
  - apply alookup_In in E. symmetry. apply In_alookup_nodup.
    + exact (Permutation_NoDup (perm_keys _ _ P) ND).
    + exact (Permutation_in _ P E).
  - symmetry. apply alookup_None. intro I. apply alookup_None in E. apply E.
    exact (Permutation_in _ (Permutation_sym (perm_keys _ _ P)) I).
Qed.

Lemma aset_split : forall T1 T2 p (e v : V), ~ In p (akeys T1) ->
  aset p v (T1 ++ (p, e) :: T2) = T1 ++ (p, v) :: T2.
Proof.
  induction T1 as [|[k w] T1 IH]; intros T2 p e v N; cbn [app aset].
  - now rewrite beqb_refl.
  - cbn [akeys map fst In] in N. destruct (beqb_spec p k) as [->|Npk]; [elim N; now left|].
    f_equal. apply IH. intro I. apply N. now right.
Qed.

Lemma aset_notin : forall T p (v : V), ~ In p (akeys T) -> aset p v T = T ++ [(p, v)].
Proof.
  induction T as [|[k w] T IH]; intros p v N; cbn [app aset]; [reflexivity|].
  cbn [akeys map fst In] in N. destruct (beqb_spec p k) as [->|Npk]; [elim N; now left|].
  f_equal. apply IH. intro I. apply N. now right.
Qed.

Lemma adelete_notin : forall T p, ~ In p (akeys T) -> adelete p T = T.
Proof.
  induction T as [|[k w] T IH]; intros p N; cbn [adelete]; [reflexivity|].
  cbn [akeys map fst In] in N. destruct (beqb_spec p k) as [->|Npk]; [elim N; now left|].
  f_equal. apply IH. intro I. apply N. now right.
Qed.

Lemma adelete_split : forall T1 T2 p (e : V), ~ In p (akeys T1) -> ~ In p (akeys T2) ->
  adelete p (T1 ++ (p, e) :: T2) = T1 ++ T2.
Proof.
  induction T1 as [|[k w] T1 IH]; intros T2 p e N1 N2; cbn [app adelete].
  - rewrite beqb_refl. now apply adelete_notin.
  - cbn [akeys map fst In] in N1. destruct (beqb_spec p k) as [->|Npk]; [elim N1; now left|].
    f_equal. apply IH; [|exact N2]. intro I. apply N1. now right.
Qed.

Lemma nodup_split : forall T1 T2 p (e : V), NoDup (akeys (T1 ++ (p, e) :: T2)) ->
  ~ In p (akeys T1) /\ ~ In p (akeys T2).
Proof.
  intros T1 T2 p e ND. unfold akeys in *. rewrite map_app in ND. cbn [map fst] in ND.
  apply NoDup_remove_2 in ND. split; intro I; apply ND; apply in_or_app; [now left | now right].
Qed.

Lemma perm_aset_in : forall T rest p (e v : V), NoDup (akeys T) -> Permutation T ((p, e) :: rest) ->
  Permutation (aset p v T) ((p, v) :: rest).
Proof.
  intros T rest p e v ND P.
  assert (I : In (p, e) T) by (apply (Permutation_in _ (Permutation_sym P)); now left).
  apply in_split in I. destruct I as [T1 [T2 ->]].
  destruct (nodup_split _ _ _ _ ND) as [N1 N2]. rewrite (aset_split _ _ _ _ _ N1).
  apply Permutation_sym, Permutation_cons_app. apply Permutation_sym in P.
  exact (Permutation_cons_app_inv _ _ P).
Qed.

Lemma perm_adelete_in : forall T rest p (e : V), NoDup (akeys T) -> Permutation T ((p, e) :: rest) ->
  Permutation (adelete p T) rest.
Proof.
  intros T rest p e ND P.
  assert (I : In (p, e) T) by (apply (Permutation_in _ (Permutation_sym P)); now left).
  apply in_split in I. destruct I as [T1 [T2 ->]].
  destruct (nodup_split _ _ _ _ ND) as [N1 N2]. rewrite (adelete_split _ _ _ _ N1 N2).
  apply Permutation_sym. apply Permutation_sym in P. exact (Permutation_cons_app_inv _ _ P).
Qed.

Lemma perm_aset_notin : forall T p (v : V), ~ In p (akeys T) -> Permutation (aset p v T) ((p, v) :: T).
Proof.
  intros T p v N. rewrite (aset_notin _ _ _ N). apply Permutation_sym, Permutation_cons_append.
Qed.

Lemma filter_perm : forall (f : bytes * V -> bool) A B, Permutation A B -> Permutation (filter f A) (filter f B).
Proof.
  intros f A B P. induction P as [|x l l' P IH|x y l|l l' l'' P1 IH1 P2 IH2]; cbn [filter].
  - apply Permutation_refl.
  - destruct (f x); [now apply perm_skip | exact IH].
  - destruct (f x), (f y); try apply Permutation_refl. apply perm_swap.
  - exact (Permutation_trans IH1 IH2).
Qed.

Lemma filter_none : forall (f : bytes * V -> bool) A, (forall x, In x A -> f x = false) -> filter f A = [].
Proof.
  intros f A. induction A as [|x A IH]; intro H; cbn [filter]; [reflexivity|].
  rewrite (H x (or_introl eq_refl)). apply IH. intros y Iy. apply H. now right.
Qed.

Lemma filter_all : forall (f : bytes * V -> bool) A, (forall x, In x A -> f x = true) -> filter f A = A.
Proof.
  intros f A. induction A as [|x A IH]; intro H; cbn [filter]; [reflexivity|].
  rewrite (H x (or_introl eq_refl)). f_equal. apply IH. intros y Iy. apply H. now right.
Qed.
End AssocPerm.

(* ================================================================ Part B : the rows of a (sub)tree *)

Definition row (p : bytes) (h : list (bytes * hterm)) : table :=
  match h with [] => [] | _ => [(p, h)] end.

Lemma own_row : forall n, own n = row (npat n) (nhandlers n).
Proof. reflexivity. Qed.

Lemma lv_eq : forall n, lv n = own n ++ lvs (nchildren n).
Proof.
  intros [s p i h x c]. reflexivity.
Qed.

Lemma lv_below : forall n, lv n = own n ++ below n.
Proof. exact lv_eq. Qed.

Lemma lvs_cons : forall x l, lvs (x :: l) = lv x ++ lvs l.
Proof. reflexivity. Qed.

Lemma lvs_app : forall l1 l2, lvs (l1 ++ l2) = lvs l1 ++ lvs l2.
Proof. intros l1 l2. unfold lvs. apply flat_map_app. Qed.

Lemma lvs_perm : forall l l', Permutation l l' -> Permutation (lvs l) (lvs l').
Proof. intros l l' P. unfold lvs. now apply Permutation_flat_map. Qed.

Lemma own_set_children : forall n c ix, own (set_children n c ix) = own n.
Proof. intros [s p i h x c0] c ix. reflexivity. Qed.
Lemma own_set_seg : forall n sg, own (set_seg n sg) = own n.
Proof. intros [s p i h x c] sg. reflexivity. Qed.
Lemma own_set_handlers : forall n hs i, own (set_handlers n hs i) = row (npat n) hs.
Proof. intros [s p i0 h x c] hs i. reflexivity. Qed.

Lemma below_set_children : forall n c ix, below (set_children n c ix) = lvs c.
Proof. intros n c ix. unfold below. now rewrite nchildren_set_children. Qed.
Lemma below_set_handlers : forall n hs i, below (set_handlers n hs i) = below n.
Proof. intros n hs i. unfold below. now rewrite nchildren_set_handlers. Qed.
Lemma lv_set_seg : forall n sg, lv (set_seg n sg) = lv n.
Proof. intros n sg. rewrite !lv_eq, own_set_seg. now rewrite nchildren_set_seg. Qed.

Lemma lvs_nth : forall c i x, nth_error c i = Some x -> Permutation (lvs c) (lv x ++ lvs (remove_nth i c)).
Proof.
  intros c i x H. rewrite <- lvs_cons. apply lvs_perm. exact (TreeLit.remove_nth_perm c i x H).
Qed.

Lemma replace_nth_perm : forall (c : list node) i x y, nth_error c i = Some x ->
  Permutation (replace_nth i y c) (y :: remove_nth i c).
Proof.
  induction c as [|z c IH]; intros i x y H; [destruct i; discriminate H|].
  destruct i as [|i]; cbn [nth_error replace_nth remove_nth] in *.
  - apply Permutation_refl.
  - eapply Permutation_trans; [apply perm_skip; exact (IH i x y H) | apply perm_swap].
Qed.

Lemma lvs_replace : forall c i x y, nth_error c i = Some x ->
  Permutation (lvs (replace_nth i y c)) (lv y ++ lvs (remove_nth i c)).
Proof.
  intros c i x y H. rewrite <- lvs_cons. apply lvs_perm. exact (replace_nth_perm c i x y H).
Qed.

Lemma below_sort : forall n keyed n', sort_node n keyed = Ok n' ->
  own n' = own n /\ Permutation (below n') (lvs (map snd keyed)).
Proof.
  intros n keyed n' H. apply sort_node_inv in H. destruct H as [ix [_ ->]].
  split; [apply own_set_children|]. rewrite below_set_children. apply lvs_perm, TreeLit.ssort_perm.
Qed.

(* membership: a row of [lv n] is the row of [n] or of a node below it *)
Lemma row_In : forall p h kv, In kv (row p h) -> kv = (p, h) /\ h <> [].
Proof.
  intros p h kv H. destruct h as [|a h]; [destruct H|]. destruct H as [<-|[]]. split; [reflexivity | discriminate].
Qed.

Lemma lvs_In : forall l kv, In kv (lvs l) <-> exists x, In x l /\ In kv (lv x).
Proof. intros l kv. unfold lvs. apply in_flat_map. Qed.

Lemma lv_In_node : forall fuel n kv, height n <= fuel -> In kv (lv n) ->
  exists d, dself n d /\ kv = (npat d, nhandlers d) /\ nhandlers d <> [].
Proof.
  induction fuel as [|f IH]; intros n kv Hh H; [rewrite height_eq in Hh; lia|].
  rewrite lv_eq in H. apply in_app_or in H. destruct H as [H|H].
  - apply row_In in H. exists n. split; [now left | exact H].
  - apply lvs_In in H. destruct H as [x [Ix H]].
    pose proof (height_child _ _ Ix) as Hx.
    destruct (IH x kv ltac:(lia) H) as [d [D R]]. exists d. split; [|exact R].
    right. exact (desc_trans_child _ _ _ Ix D).
Qed.

Lemma below_In_node : forall n kv, In kv (below n) ->
  exists d, desc n d /\ kv = (npat d, nhandlers d) /\ nhandlers d <> [].
Proof.
  intros n kv H. apply lvs_In in H. destruct H as [x [Ix H]].
  destruct (lv_In_node (height x) x kv (le_n _) H) as [d [D R]]. exists d. split; [|exact R].
  exact (desc_trans_child _ _ _ Ix D).
Qed.

Lemma own_In_self : forall n, nhandlers n <> [] -> In (npat n, nhandlers n) (own n).
Proof. intros n H. unfold own. destruct (nhandlers n); [now elim H | now left]. Qed.

Lemma node_In_below : forall n d, desc n d -> nhandlers d <> [] -> In (npat d, nhandlers d) (below n).
Proof.
  intros n d D Hne. induction D as [n ch Ich|n ch d Ich D IH]; apply lvs_In; exists ch; (split; [exact Ich|]);
    rewrite lv_eq; apply in_or_app.
  - left. now apply own_In_self.
  - right. exact (IH Hne).
Qed.

(* every key below a node extends the node's pattern *)
Lemma lv_keys_prefix : forall n kv, all_nodes pat_ok n -> In kv (lv n) -> exists x, fst kv = npat n ++ x.
Proof.
  intros n kv Pn H. destruct (lv_In_node (height n) n kv (le_n _) H) as [d [[->|D] [-> _]]]; cbn [fst].
  - exists []. now rewrite app_nil_r.
  - exact (desc_pat _ _ Pn D).
Qed.

(* ---------------------------------------------------------------- one row per pattern *)
Definition bytes_eq_dec : forall a b : bytes, {a = b} + {a <> b} := list_eq_dec N.eq_dec.

Lemma count_row : forall p q h, count_occ bytes_eq_dec (akeys (row q h)) p <= b2n (beqb q p).
Proof.
  intros p q h. destruct h as [|a h]; cbn [row akeys map fst count_occ]; [lia|].
  destruct (bytes_eq_dec q p) as [->|N]; [rewrite beqb_refl; cbn; lia | lia].
Qed.

Lemma akeys_app : forall (A B : table), akeys (A ++ B) = akeys A ++ akeys B.
Proof. intros A B. unfold akeys. apply map_app. Qed.

Lemma count_lv : forall p fuel n, height n <= fuel ->
  count_occ bytes_eq_dec (akeys (lv n)) p <= b2n (pat_is p n) + cnt (pat_is p) n.
Proof.
  intros p. induction fuel as [|f IH]; intros n Hh; [rewrite height_eq in Hh; lia|].
  rewrite lv_eq, akeys_app, count_occ_app, cnt_eq.
  pose proof (count_row p (npat n) (nhandlers n)) as H1. rewrite <- own_row in H1.
  unfold pat_is at 1.
  assert (H2 : forall l, (forall x, In x l -> height x <= f) ->
            count_occ bytes_eq_dec (akeys (lvs l)) p <= cnts (pat_is p) l).
  { induction l as [|x l IHl]; intro Hl; [cbn; lia|].
    rewrite lvs_cons, akeys_app, count_occ_app. cbn [cnts].
    pose proof (IH x (Hl x (or_introl eq_refl))) as Hx.
    assert (Hl' : forall y, In y l -> height y <= f) by (intros y Iy; apply Hl; now right).
    specialize (IHl Hl'). lia. }
  assert (H3 : forall x, In x (nchildren n) -> height x <= f).
  { intros x Ix. apply height_child in Ix. lia. }
  specialize (H2 _ H3). lia.
Qed.

Lemma below_nodup : forall n, (forall p, pattern_once p n) -> NoDup (akeys (below n)).
Proof.
  intros n H. apply (NoDup_count_occ bytes_eq_dec). intro p. specialize (H p). unfold pattern_once in H.
  rewrite cnt_eq in H. unfold below.
  assert (H2 : forall l, count_occ bytes_eq_dec (akeys (lvs l)) p <= cnts (pat_is p) l).
  { induction l as [|x l IHl]; [cbn; lia|].
    rewrite lvs_cons, akeys_app, count_occ_app. cbn [cnts].
    pose proof (count_lv p (height x) x (le_n _)). lia. }
  specialize (H2 (nchildren n)). lia.
Qed.

(* ================================================================ Part C : Tree.Add changes one row *)
Section AddRows.
Variable tp : bytes.
Variable F : list (bytes * hterm) -> list (bytes * hterm).

(* [L'] is [L] with the row of pattern [tp] (absent = no handlers) replaced by [F] of it *)
Definition UL (L L' : table) : Prop :=
  exists hs rest, Permutation L (row tp hs ++ rest) /\ Permutation L' (row tp (F hs) ++ rest).

Lemma UL_perm : forall L L' M M', UL L L' -> Permutation L M -> Permutation L' M' -> UL M M'.
Proof.
  intros L L' M M' [hs [rest [P1 P2]]] Q1 Q2. exists hs, rest. split.
  - exact (Permutation_trans (Permutation_sym Q1) P1).
  - exact (Permutation_trans (Permutation_sym Q2) P2).
Qed.

Lemma UL_frame : forall X L L', UL L L' -> UL (X ++ L) (X ++ L').
Proof.
  intros X L L' [hs [rest [P1 P2]]]. exists hs, (X ++ rest). split.
  - eapply Permutation_trans; [apply Permutation_app_head; exact P1 | apply Permutation_app_swap_app].
  - eapply Permutation_trans; [apply Permutation_app_head; exact P2 | apply Permutation_app_swap_app].
Qed.

Lemma UL_frame_r : forall X L L', UL L L' -> UL (L ++ X) (L' ++ X).
Proof.
  intros X L L' H. apply (UL_perm (X ++ L) (X ++ L')); [now apply UL_frame | |]; apply Permutation_app_comm.
Qed.

Lemma keeps_own : forall n n', keeps QT n n' -> nhandlers n' = nhandlers n -> own n' = own n.
Proof. intros n n' [_ [Hp _]] Hh. now rewrite !own_row, Hp, Hh. Qed.

Lemma UL_lv : forall n n', keeps QT n n' -> nhandlers n' = nhandlers n -> UL (below n) (below n') ->
  UL (lv n) (lv n').
Proof.
  intros n n' K Hh H. rewrite !lv_below, (keeps_own _ _ K Hh). now apply UL_frame.
Qed.

Definition kcA (tp' : bytes) (k : node -> res node) : Prop :=
  forall ch ch', all_nodes (inv QT) ch -> npat ch = tp' -> k ch = Ok ch' ->
    keeps QT ch ch' /\ UL (lv ch) (lv ch').

Lemma add_segment_rows : forall fuel ic n seg k n', all_nodes (inv QT) n ->
  kcA (npat n ++ sval seg) k -> add_segment fuel ic n seg k = Ok n' ->
  keeps QT n n' /\ UL (below n) (below n').
Proof.
  induction fuel as [|f IH]; intros ic n seg k n' Hn Hk H; [discriminate|].
  rewrite add_segment_S in H. cbv zeta in H.
  assert (Hcont : forall l ch ch', all_nodes (inv QT) ch -> npat ch = npat n ++ firstn l (sval seg) ->
            add_continue f ic seg l k ch = Ok ch' -> keeps QT ch ch' /\ UL (lv ch) (lv ch')).
  { intros l ch ch' Hch Hp Hc. unfold add_continue in Hc.
    destruct (Nat.eqb_spec (length (sval seg)) l) as [El|Nl].
    - apply (Hk _ _ Hch); [|exact Hc]. rewrite Hp. f_equal. apply firstn_all2. lia.
    - repeat res_step Hc.
      assert (G : keeps QT ch ch' /\ UL (below ch) (below ch')).
      { refine (IH _ _ _ _ _ Hch _ Hc). rewrite (new_segment_value _ _ _ E0).
        apply slice_or_panic_ok in E. rewrite (gslice_to_end _ _ _ E).
        rewrite Hp, <- app_assoc, firstn_skipn. exact Hk. }
      destruct G as [G1 G2]. split; [exact G1|].
      apply (UL_lv _ _ G1); [exact (add_segment_handlers _ _ _ _ _ _ Hc) | exact G2]. }
  (* a replaced child *)
  assert (Hrep : forall i ch ch', nth_error (nchildren n) i = Some ch ->
            keeps QT ch ch' /\ UL (lv ch) (lv ch') ->
            keeps QT n (set_children n (replace_nth i ch' (nchildren n)) (nindexes n)) /\
            UL (below n) (below (set_children n (replace_nth i ch' (nchildren n)) (nindexes n)))).
  { intros i ch ch' NTH [G1 G2].
    assert (Ich : In ch (nchildren n)) by (eapply nth_error_In; eassumption).
    split; [now apply (replace_child_keeps QT n i ch)|].
    rewrite below_set_children.
    apply (UL_perm _ _ _ _ (UL_frame_r (lvs (remove_nth i (nchildren n))) _ _ G2)).
    - apply Permutation_sym. exact (lvs_nth _ _ _ NTH).
    - apply Permutation_sym. exact (lvs_replace _ _ _ _ NTH). }
  (* a child appended and sorted in *)
  assert (Hsort : forall others pr y y' n1, sort_node n (with_prio others ++ [(pr, y')]) = Ok n1 ->
            incl others (nchildren n) -> npat y' = npat n ++ sval (nseg y') -> all_nodes (inv QT) y' ->
            Permutation (below n) (lvs others ++ lv y) -> UL (lv y) (lv y') ->
            keeps QT n n1 /\ UL (below n) (below n1)).
  { intros others pr y y' n1 Hs Hin Py Ay Pb Uy. split.
    - apply (sort_node_keeps QT _ _ _ Hs); [exact I|]. rewrite map_app, map_snd_with_prio. cbn [map snd].
      intros z Hz. apply in_app_or in Hz. destruct Hz as [Hz|[<-|[]]].
      + apply (all_pat_child QT); [exact Hn | now apply Hin].
      + now split.
    - destruct (below_sort _ _ _ Hs) as [_ Pn1].
      rewrite map_app, map_snd_with_prio in Pn1. cbn [map snd] in Pn1.
      rewrite lvs_app, lvs_cons in Pn1. cbn [lvs flat_map] in Pn1. rewrite app_nil_r in Pn1.
      apply (UL_perm _ _ _ _ (UL_frame (lvs others) _ _ Uy)); apply Permutation_sym; assumption. }
  destruct (scan_sim seg (nchildren n) 0 None) as [[i|] best] eqn:SC.
  - (* identical child *)
    destruct (nth_error (nchildren n) i) as [ch|] eqn:NTH; [|discriminate].
    assert (Ich : In ch (nchildren n)) by (eapply nth_error_In; eassumption).
    destruct (scan_sim_some _ _ _ _ _ _ SC) as [ch0 [_ [N0 S0]]].
    rewrite Nat.sub_0_r, NTH in N0. injection N0 as <-.
    res_step H. injection H as <-.
    destruct (all_pat_child QT _ _ Hn Ich) as [Pch Ach].
    apply (Hrep i ch x NTH). apply Hk; [exact Ach | | exact E].
    rewrite Pch. f_equal. now apply similarity_same.
  - destruct best as [[i l]|].
    + (* a child shares a prefix *)
      destruct (nth_error (nchildren n) i) as [ch|] eqn:NTH; [|discriminate].
      assert (Ich : In ch (nchildren n)) by (eapply nth_error_In; eassumption).
      destruct (all_pat_child QT _ _ Hn Ich) as [Pch Ach].
      assert (CP : cpre (Z.to_nat l) (sval (nseg ch)) (sval seg)).
      { destruct (scan_sim_best _ _ _ _ _ _ SC) as [E|[ch0 [_ [N0 S0]]]]; [discriminate E|].
        rewrite Nat.sub_0_r, NTH in N0. injection N0 as <-. rewrite <- S0. apply similarity_cpre. }
      destruct CP as [L1 [L2 L3]].
      destruct (Nat.leb_spec (length (sval (nseg ch))) (Z.to_nat l)) as [Hle|Hgt].
      * res_step H. injection H as <-.
        apply (Hrep i ch x NTH). refine (Hcont (Z.to_nat l) _ _ Ach _ E).
        rewrite Pch. f_equal. rewrite <- L3. symmetry. now apply firstn_all2.
      * res_step H. destruct x as [s1 s2].
        pose proof (seg_split_first _ _ _ _ _ E) as V1.
        apply seg_split_value in E.
        res_step H. rename x into ret. res_step H. rename x into ret'.
        assert (Hret : keeps QT (Node s1 (npat n ++ sval s1) 0 [] [] []) ret).
        { apply (sort_node_keeps QT _ _ _ E0); [exact I|]. rewrite map_snd_with_prio. intros y [<-|[]].
          destruct (set_seg_facts ch s2) as [Hp [Hs Hc]]. rewrite Hp, Hs. cbn [npat].
          split; [rewrite Pch, <- E; now rewrite app_assoc|].
          apply (same_shape QT ch _ Hp Hc); [exact I | exact Ach]. }
        assert (Lret : Permutation (lv ret) (lv ch)).
        { destruct (below_sort _ _ _ E0) as [Or Br]. rewrite lv_below, Or.
          rewrite map_snd_with_prio in Br. cbn [lvs flat_map] in Br. rewrite app_nil_r, lv_set_seg in Br.
          exact Br. }
        destruct Hret as [Aret [Pret Sret]]. cbn [npat nseg] in Pret, Sret.
        assert (G : keeps QT ret ret' /\ UL (lv ret) (lv ret')).
        { refine (Hcont (Z.to_nat l) _ _ Aret _ E1). rewrite Pret, V1. f_equal. exact L3. }
        destruct G as [[Aret' [Pret' Sret']] G2].
        apply (Hsort _ _ ret ret' _ H); [| | exact Aret' | | exact G2].
        -- intros z Hz. now apply In_remove_nth in Hz.
        -- now rewrite Pret', Sret', Pret, Sret.
        -- eapply Permutation_trans; [exact (lvs_nth _ _ _ NTH)|].
           eapply Permutation_trans; [apply Permutation_app_comm|].
           apply Permutation_app_head, Permutation_sym, Lret.
    + (* a new child *)
      res_step H. rename x into nn'.
      assert (Hnn : all_nodes (inv QT) (new_node n seg))
        by (apply (all_pat_intro QT); [exact I | intros ch []]).
      assert (G : keeps QT (new_node n seg) nn' /\ UL (lv (new_node n seg)) (lv nn'))
        by (apply Hk; [exact Hnn | reflexivity | exact E]).
      destruct G as [[Ann [Pnn Snn]] G2]. cbn [new_node npat nseg] in Pnn, Snn.
      apply (Hsort _ _ (new_node n seg) nn' _ H); [apply incl_refl | | exact Ann | | exact G2].
      * now rewrite Pnn, Snn.
      * cbn [new_node lv app]. rewrite app_nil_r. apply Permutation_refl.
Qed.

Lemma get_node_hs : forall segs fuel ic n upd n',
  get_node fuel ic n segs upd = Ok n' -> nhandlers n' = nhandlers n.
Proof.
  intros [|seg [|seg2 rest]] fuel ic n upd n' H; simpl in H; [discriminate| |];
    exact (add_segment_handlers _ _ _ _ _ _ H).
Qed.

Lemma get_node_rows : forall fuel ic segs n upd n', all_nodes (inv QT) n ->
  kcA (npat n ++ concat (map sval segs)) upd ->
  get_node fuel ic n segs upd = Ok n' -> keeps QT n n' /\ UL (below n) (below n').
Proof.
  intros fuel ic segs. induction segs as [|seg rest IH]; intros n upd n' Hn Hk H; [discriminate|].
  destruct rest as [|seg2 rest].
  - cbn [get_node] in H. apply (add_segment_rows _ _ _ _ _ _ Hn) in H; [exact H|].
    cbn [map concat] in Hk. now rewrite app_nil_r in Hk.
  - cbn [get_node] in H. refine (add_segment_rows _ _ _ _ _ _ Hn _ H).
    intros ch ch' Hch Hp Hc.
    assert (G : keeps QT ch ch' /\ UL (below ch) (below ch')).
    { refine (IH ch upd ch' Hch _ Hc). rewrite Hp, <- app_assoc. exact Hk. }
    destruct G as [G1 G2]. split; [exact G1|].
    apply (UL_lv _ _ G1); [exact (get_node_hs (seg2 :: rest) fuel ic ch upd ch' Hc) | exact G2].
Qed.

End AddRows.

Lemma row_cons : forall p h, h <> [] -> row p h = [(p, h)].
Proof. intros p [|a h] H; [now elim H | reflexivity]. Qed.

Lemma add_hs_nonempty : forall router h pattern mws ms hs, add_hs router h pattern mws ms hs <> [].
Proof.
  intros router h pattern mws ms hs E.
  assert (I : In M405 (akeys (add_hs router h pattern mws ms hs))) by (apply add_hs_keys; now left).
  rewrite E in I. destruct I.
Qed.

Lemma t_handle_eq : forall c T p h mws ms,
  t_handle c T p h mws ms =
  aset p (add_hs (c_router c) h p mws (match ms with [] => any_methods | _ => ms end)
            (opt_default [] (alookup p T))) T.
Proof. reflexivity. Qed.

Lemma tree_add_rows : forall t p h mws ms t', tree_pat_ok t -> tree_add t p h mws ms = Ok t' ->
  UL p (add_hs (tname t) h p mws (match ms with [] => any_methods | _ => ms end)) (abs_tree t) (abs_tree t').
Proof.
  intros t p h mws ms t' Hpat H. apply tree_add_inv2 in H. cbv zeta in H.
  destruct H as [segs [root' [SP [G ->]]]].
  set (ms' := match ms with [] => any_methods | _ => ms end) in *.
  apply tree_pat_inv_QT in Hpat. destruct Hpat as [Ha Hroot].
  apply (get_node_rows p (add_hs (tname t) h p mws ms')) in G; [|exact Ha|].
  - destruct G as [_ G]. unfold abs_tree, tree_build_methods. cbn [troot].
    rewrite below_set_handlers. exact G.
  - rewrite Hroot, (split_concat _ _ _ SP). cbn [app].
    intros ch ch' Hch Hp Hc. rewrite add_methods_eq in Hc. res_step Hc. injection Hc as <-.
    split; [now apply (set_handlers_keeps QT)|].
    rewrite !lv_below, own_set_handlers, below_set_handlers, own_row, Hp.
    exists (nhandlers ch), (below ch). split; apply Permutation_refl.
Qed.

Lemma add_step : forall c T t p h mws ms t', tree_pat_ok t -> c_router c = tname t ->
  NoDup (akeys (abs_tree t)) -> NoDup (akeys (abs_tree t')) ->
  Permutation (abs_tree t) T -> tree_add t p h mws ms = Ok t' ->
  Permutation (abs_tree t') (t_handle c T p h mws ms).
Proof.
  intros c T t p h mws ms t' Hpat Hname ND ND' PT H.
  rewrite t_handle_eq, Hname.
  destruct (tree_add_rows _ _ _ _ _ _ Hpat H) as [hs [rest [P1 P2]]].
  set (ms' := match ms with [] => any_methods | _ => ms end) in *.
  rewrite (row_cons p _ (add_hs_nonempty (tname t) h p mws ms' hs)) in P2. cbn [app] in P2.
  assert (NDT : NoDup (akeys T)) by exact (Permutation_NoDup (perm_keys _ _ PT) ND).
  destruct hs as [|a hs0].
  - cbn [row app] in P1.
    assert (Np : ~ In p (akeys T)).
    { pose proof (Permutation_NoDup (perm_keys _ _ P2) ND') as N2. cbn [akeys map fst] in N2.
      inversion N2 as [|x l Nx _]. subst. intro I. apply Nx.
      apply (Permutation_in _ (perm_keys _ _ (Permutation_trans (Permutation_sym PT) P1)) I). }
    rewrite (proj2 (alookup_None T p) Np). cbn [opt_default].
    eapply Permutation_trans; [exact P2|]. apply Permutation_sym.
    eapply Permutation_trans; [exact (perm_aset_notin T p _ Np)|].
    apply perm_skip. exact (Permutation_trans (Permutation_sym PT) P1).
  - remember (a :: hs0) as hs eqn:Ehs. assert (Hne : hs <> []) by (subst hs; discriminate).
    rewrite (row_cons p hs Hne) in P1. cbn [app] in P1.
    assert (PT' : Permutation T ((p, hs) :: rest)) by exact (Permutation_trans (Permutation_sym PT) P1).
    assert (L : alookup p T = Some hs).
    { apply In_alookup_nodup; [exact NDT|]. apply (Permutation_in _ (Permutation_sym PT')). now left. }
    rewrite L. cbn [opt_default].
    eapply Permutation_trans; [exact P2|]. apply Permutation_sym.
    exact (perm_aset_in T rest p hs _ NDT PT').
Qed.

(* ================================================================ Part D : Tree.Remove changes one row *)

Lemma prunable_lv : forall d, prunable d = true -> lv d = [].
Proof.
  intros d H. destruct (prunable_facts d H) as [Hh Hc]. rewrite lv_eq, own_row, Hh, Hc. reflexivity.
Qed.

Lemma finished_below : forall n i ch0 ch' n', nth_error (nchildren n) i = Some ch0 ->
  finished n i ch' n' -> Permutation (below n') (lv ch' ++ lvs (remove_nth i (nchildren n))).
Proof.
  intros n i ch0 ch' n' NTH [[Hp [ix ->]]|[_ ->]]; rewrite below_set_children.
  - rewrite (prunable_lv _ Hp). apply Permutation_refl.
  - exact (lvs_replace _ _ _ _ NTH).
Qed.

Lemma perm_inside : forall (O B X R Y : table), Permutation B (X ++ R) ->
  Permutation (O ++ B ++ Y) (X ++ (O ++ R ++ Y)).
Proof.
  intros O B X R Y P.
  eapply Permutation_trans; [apply Permutation_app_head, Permutation_app_tail; exact P|].
  rewrite <- app_assoc. apply Permutation_app_swap_app.
Qed.

Lemma one_changed_rows : forall r r' n n', nchildren r' = nchildren r -> one_changed r r' n n' ->
  exists rest, Permutation (below n) (own r ++ rest) /\ Permutation (below n') (own r' ++ rest).
Proof.
  intros r r' n n' Hc OC. induction OC as [n i n' NTH Hf|n i ch ch' n' NTH OC IH Hf].
  - exists (below r ++ lvs (remove_nth i (nchildren n))). split.
    + eapply Permutation_trans; [exact (lvs_nth _ _ _ NTH)|]. rewrite lv_below, <- app_assoc. apply Permutation_refl.
    + eapply Permutation_trans; [exact (finished_below _ _ _ _ _ NTH Hf)|].
      rewrite lv_below, <- app_assoc. unfold below at 1. rewrite Hc. apply Permutation_refl.
  - destruct IH as [rest0 [P1 P2]].
    assert (Eo : own ch' = own ch).
    { destruct (one_changed_shape _ _ _ _ OC) as [c [ix ->]]. apply own_set_children. }
    exists (own ch ++ rest0 ++ lvs (remove_nth i (nchildren n))). split.
    + eapply Permutation_trans; [exact (lvs_nth _ _ _ NTH)|]. rewrite lv_below, <- app_assoc.
      now apply perm_inside.
    + eapply Permutation_trans; [exact (finished_below _ _ _ _ _ NTH Hf)|].
      rewrite lv_below, <- app_assoc, Eo. now apply perm_inside.
Qed.

(* the handler table Remove leaves at the node *)
Definition rm_hs (ms : list bytes) (e : list (bytes * hterm)) : list (bytes * hterm) :=
  match ms with
  | [] => []
  | _ => let hs1 := fst (remove_methods ms e []) in
         if Nat.eqb (length hs1) 2 && ahas OPTIONS hs1 && ahas M405 hs1 then [] else hs1
  end.

Lemma remove_at_node_hs : forall trace ms n,
  nhandlers (fst (remove_at_node trace ms n)) = rm_hs ms (nhandlers n) /\
  npat (fst (remove_at_node trace ms n)) = npat n.
Proof.
  intros trace ms n. unfold remove_at_node, rm_hs. destruct ms as [|m ms].
  - cbn [fst]. rewrite nhandlers_set_handlers. split; [reflexivity | apply set_handlers_facts].
  - destruct (remove_methods (m :: ms) (nhandlers n) []) as [hs1 rm]. cbn [fst].
    destruct (Nat.eqb (length hs1) 2 && ahas OPTIONS hs1 && ahas M405 hs1); cbn [fst];
      rewrite nhandlers_set_handlers; (split; [reflexivity | apply set_handlers_facts]).
Qed.

Lemma rm_hs_nil : forall ms, rm_hs ms [] = [].
Proof.
  intros [|m ms]; [reflexivity|]. unfold rm_hs. rewrite remove_methods_nil. reflexivity.
Qed.

Lemma collapse_eq : forall trace hs, full trace hs ->
  Nat.eqb (length hs) 2 && ahas OPTIONS hs && ahas M405 hs = only_auto hs.
Proof.
  intros trace hs [[ND [_ [GH _]]] [IO I4]].
  rewrite (proj2 (ahas_In hs OPTIONS) IO), (proj2 (ahas_In hs M405) I4), !andb_true_r.
  apply TreeCount.bool_eq_iff. split; intro H.
  - apply Nat.eqb_eq in H. unfold only_auto. apply forallb_forall. intros [k v] Ikv. cbn [fst].
    destruct (is_auto k) eqn:A; [reflexivity|]. exfalso.
    pose proof (TreeCount.collapse_no_user hs k H (proj2 (ahas_In hs OPTIONS) IO) (proj2 (ahas_In hs M405) I4) A) as N.
    apply ahas_notIn in N. apply N. unfold akeys. change k with (fst (k, v)). now apply in_map.
  - apply Nat.eqb_eq. unfold only_auto in H. rewrite forallb_forall in H.
    assert (Hin : incl (akeys hs) [OPTIONS; M405]).
    { intros k Ik. unfold akeys in Ik. apply in_map_iff in Ik. destruct Ik as [[k0 v] [<- Ikv]]. cbn [fst].
      pose proof (H _ Ikv) as Hk. cbn [fst] in Hk. unfold is_auto in Hk.
      apply orb_true_iff in Hk. destruct Hk as [Hk|Hk]; [apply orb_true_iff in Hk; destruct Hk as [Hk|Hk]|].
      - apply beqb_eq in Hk. subst. now left.
      - apply beqb_eq in Hk. subst k0. exfalso.
        assert (IH : In HEAD (akeys hs)) by (unfold akeys; change HEAD with (fst (HEAD, v)); now apply in_map).
        apply GH in IH. unfold akeys in IH. apply in_map_iff in IH. destruct IH as [[k1 v1] [E1 I1]].
        cbn [fst] in E1. subst k1. specialize (H _ I1). cbn [fst] in H. vm_compute in H. discriminate H.
      - apply beqb_eq in Hk. subst. right. now left. }
    assert (Hin2 : incl [OPTIONS; M405] (akeys hs)).
    { intros k [<-|[<-|[]]]; assumption. }
    assert (ND2 : NoDup [OPTIONS; M405]).
    { constructor; [intros [E|[]]; discriminate E | constructor; [intros [] | constructor]]. }
    pose proof (NoDup_incl_length ND Hin) as L1. pose proof (NoDup_incl_length ND2 Hin2) as L2.
    unfold akeys in L1, L2. rewrite map_length in L1, L2. cbn [length] in L1, L2. lia.
Qed.

Lemma tree_remove_rows : forall t p ms t', tree_pat_ok t -> tree_remove t p ms = Ok t' ->
  (t' = t /\ find (tree_fuel t) (troot t) p = None) \/
  exists r rest, desc (troot t) r /\ npat r = p /\
    Permutation (abs_tree t) (own r ++ rest) /\
    Permutation (abs_tree t') (row p (rm_hs ms (nhandlers r)) ++ rest).
Proof.
  intros t p ms t' [Ha Hroot] H. unfold tree_remove in H.
  apply bind_ok in H. destruct H as [x [R H]]. destruct x as [[root' removed]|].
  - injection H as <-. right.
    destruct (C03_remove_effect_l _ _ _ _ _ _ _ R) as [r [Fd [_ OC]]].
    destruct (C03_find_sound_l _ _ _ _ Ha Fd) as [D Pr]. rewrite Hroot in Pr. cbn [app] in Pr.
    destruct (one_changed_rows _ _ _ _ (remove_at_node_children (has_trace t) ms r) OC) as [rest [P1 P2]].
    exists r, rest. split; [exact D|]. split; [exact Pr|]. split; [exact P1|].
    unfold abs_tree, tree_build_methods. cbn [troot]. rewrite below_set_handlers.
    destruct (remove_at_node_hs (has_trace t) ms r) as [Eh Ep].
    rewrite own_row, Eh, Ep, Pr in P2. exact P2.
  - injection H as <-. left. split; [reflexivity|]. exact (remove_in_none _ _ _ _ _ R).
Qed.

Lemma t_remove_absent : forall T p ms, alookup p T = None -> t_remove T p ms = T.
Proof. intros T p ms E. unfold t_remove. now rewrite E. Qed.

Lemma remove_step : forall T t p ms t', tree_pat_ok t -> tree_hs_ok t ->
  (forall q, pattern_once q (troot t)) ->
  Permutation (abs_tree t) T -> tree_remove t p ms = Ok t' ->
  Permutation (abs_tree t') (t_remove T p ms).
Proof.
  intros T t p ms t' Hpat Hhs Honce PT H.
  assert (ND : NoDup (akeys (abs_tree t))) by (apply below_nodup; exact Honce).
  assert (NDT : NoDup (akeys T)) by exact (Permutation_NoDup (perm_keys _ _ PT) ND).
  destruct (tree_remove_rows _ _ _ _ Hpat H) as [[-> Fd]|[r [rest [D [Pr [P1 P2]]]]]].
  - rewrite t_remove_absent; [exact PT|].
    destruct (alookup p T) as [e|] eqn:L; [exfalso | reflexivity].
    apply alookup_In in L. apply (Permutation_in _ (Permutation_sym PT)) in L.
    destruct (below_In_node _ _ L) as [d [Dd [E _]]]. injection E as E _.
    exact (C03_absent_not_found_l t p Hpat Fd d Dd (eq_sym E)).
  - destruct (nhandlers r) as [|a e0] eqn:Eh.
    + (* the node has no handlers: nothing in either machine *)
      rewrite own_row, Eh in P1. rewrite rm_hs_nil in P2. cbn [row app] in P1, P2.
      rewrite t_remove_absent; [exact (Permutation_trans P2 (Permutation_trans (Permutation_sym P1) PT))|].
      destruct (alookup p T) as [e|] eqn:L; [exfalso | reflexivity].
      apply alookup_In in L. apply (Permutation_in _ (Permutation_sym PT)) in L.
      destruct (below_In_node _ _ L) as [d [Dd [E Hne]]]. injection E as E1 E2.
      assert (Edr : d = r) by exact (C03_pattern_once_unique_l p (troot t) d r (Honce p) Dd D (eq_sym E1) Pr).
      subst d. now rewrite Eh in Hne.
    + remember (a :: e0) as e eqn:Ee. assert (Hne : e <> []) by (subst e; discriminate).
      rewrite own_row, Eh, Pr, (row_cons p e Hne) in P1. cbn [app] in P1.
      assert (PT' : Permutation T ((p, e) :: rest)) by exact (Permutation_trans (Permutation_sym PT) P1).
      assert (L : alookup p T = Some e).
      { apply In_alookup_nodup; [exact NDT|]. apply (Permutation_in _ (Permutation_sym PT')). now left. }
      assert (Hfull : full (has_trace t) e).
      { assert (Hr : TreeAllow.hs_ok (has_trace t) r).
        { apply tree_hs_node; [exact Hhs|]. destruct (desc_first _ _ D) as [ch [Ich Hd]]. exists ch. now split. }
        apply hs_ok_iff in Hr. destruct Hr as [[E _]|[Hf _]]; [rewrite Eh in E; now subst e | now rewrite Eh in Hf]. }
      unfold t_remove. rewrite L. destruct ms as [|m ms].
      * cbn [rm_hs row app] in P2. eapply Permutation_trans; [exact P2|]. apply Permutation_sym.
        exact (perm_adelete_in T rest p e NDT PT').
      * cbv beta iota zeta delta [rm_hs] in P2. remember (m :: ms) as ms0 eqn:Ems.
        pose proof (remove_methods_full (has_trace t) ms0 e [] Hfull) as Hf'.
        rewrite (collapse_eq _ _ Hf') in P2.
        destruct (only_auto (fst (remove_methods ms0 e []))).
        -- cbn [row app] in P2. eapply Permutation_trans; [exact P2|]. apply Permutation_sym.
           exact (perm_adelete_in T rest p e NDT PT').
        -- assert (Hne' : fst (remove_methods ms0 e []) <> []).
           { intro E. destruct Hf' as [_ [IO _]]. rewrite E in IO. destruct IO. }
           rewrite (row_cons p _ Hne') in P2. cbn [app] in P2.
           eapply Permutation_trans; [exact P2|]. apply Permutation_sym.
           exact (perm_aset_in T rest p e _ NDT PT').
Qed.

(* ================================================================ Part E : Tree.Clean filters the rows *)

Definition keepf (pf : bytes) (kv : bytes * entry) : bool := negb (has_prefix (fst kv) pf).

Lemma t_clean_eq : forall T prefix, t_clean T prefix = filter (keepf prefix) T.
Proof. reflexivity. Qed.

Lemma has_prefix_app_r : forall v q x, has_prefix v q = true -> has_prefix (v ++ x) q = true.
Proof.
  intros v q x H. apply has_prefix_spec in H. destruct H as [r ->]. apply has_prefix_spec.
  exists (r ++ x). now rewrite app_assoc.
Qed.

Lemma lvs_keys_prefix : forall n kv, all_nodes pat_ok n -> In kv (below n) -> exists x, fst kv = npat n ++ x.
Proof.
  intros n kv Pn H. apply lvs_In in H. destruct H as [ch [Ich H]].
  destruct (lv_keys_prefix ch kv (all_nodes_child _ _ _ Pn Ich) H) as [x E].
  exists (sval (nseg ch) ++ x). rewrite E, (all_nodes_here _ _ Pn ch Ich). now rewrite app_assoc.
Qed.

Lemma clean_in_rows : forall fuel n q n', all_nodes pat_ok n -> clean_in fuel n q = Ok n' ->
  own n' = own n /\ below n' = filter (keepf (npat n ++ q)) (below n).
Proof.
  induction fuel as [|f IH]; intros n q n' Pn H; [discriminate H|].
  rewrite TreeSafe.clean_in_S in H. destruct q as [|b q].
  - injection H as <-. split; [apply own_set_children|]. rewrite below_set_children, app_nil_r.
    cbn [lvs flat_map]. symmetry. apply filter_none. intros kv I.
    destruct (lvs_keys_prefix n kv Pn I) as [x E]. unfold keepf. now rewrite E, has_prefix_app.
  - remember (b :: q) as pf eqn:Epf.
    apply bind_ok in H. destruct H as [cs [Hg H]].
    apply bind_ok in H. destruct H as [ix [_ H]]. injection H as <-.
    split; [apply own_set_children|]. rewrite below_set_children. unfold below.
    assert (Hgo : forall c cs0, incl c (nchildren n) -> TreeSafe.clean_go f pf c = Ok cs0 ->
              lvs cs0 = filter (keepf (npat n ++ pf)) (lvs c)).
    { induction c as [|ch c IHc]; intros cs0 Hin Hc; cbn [TreeSafe.clean_go] in Hc.
      - injection Hc as <-. reflexivity.
      - cbv zeta in Hc. apply bind_ok in Hc. destruct Hc as [ch' [C Hc]].
        apply bind_ok in Hc. destruct Hc as [rest [R Hc]].
        assert (Ich : In ch (nchildren n)) by (apply Hin; now left).
        assert (Hin' : incl c (nchildren n)) by (intros z Iz; apply Hin; now right).
        pose proof (all_nodes_here _ _ Pn ch Ich) as Pch.
        pose proof (all_nodes_child _ _ _ Pn Ich) as Ach.
        specialize (IHc rest Hin' R).
        rewrite lvs_cons, filter_app, <- IHc.
        assert (Hkey : forall kv, In kv (lv ch) -> exists x, fst kv = npat n ++ sval (nseg ch) ++ x).
        { intros kv I. destruct (lv_keys_prefix ch kv Ach I) as [x E]. exists x. now rewrite E, Pch, app_assoc. }
        destruct (has_prefix (sval (nseg ch)) pf) eqn:HP; injection Hc as <-.
        + (* the whole subtree goes *)
          rewrite filter_none; [reflexivity|]. intros kv I. destruct (Hkey kv I) as [x E].
          unfold keepf. rewrite E, has_prefix_app_both, (has_prefix_app_r _ _ x HP). reflexivity.
        + rewrite lvs_cons. f_equal.
          destruct (Nat.ltb (length (sval (nseg ch))) (length pf) && has_prefix pf (sval (nseg ch))) eqn:Bt.
          * (* the prefix continues below this child *)
            apply andb_true_iff in Bt. destruct Bt as [_ Hpre].
            pose proof (has_prefix_skipn _ _ Hpre) as Epre.
            destruct (IH _ _ _ Ach C) as [Eo Eb].
            rewrite (lv_below ch'), (lv_below ch), filter_app, Eo, Eb.
            rewrite Pch, <- app_assoc, <- Epre. f_equal.
            symmetry. apply filter_all. intros kv I. rewrite own_row in I. apply row_In in I.
            destruct I as [-> _]. unfold keepf. cbn [fst]. now rewrite Pch, has_prefix_app_both, HP.
          * injection C as <-. symmetry. apply filter_all. intros kv I. destruct (Hkey kv I) as [x E].
            unfold keepf. rewrite E, has_prefix_app_both, (prefix_incomparable _ _ x HP Bt). reflexivity. }
    exact (Hgo _ _ (incl_refl _) Hg).
Qed.

Lemma clean_step : forall T t prefix t', tree_pat_ok t -> Permutation (abs_tree t) T ->
  tree_clean t prefix = Ok t' -> Permutation (abs_tree t') (t_clean T prefix).
Proof.
  intros T t prefix t' [Ha Hroot] PT H. apply tree_clean_inv in H. destruct H as [root' [C ->]].
  unfold abs_tree, tree_build_methods. cbn [troot]. rewrite below_set_handlers.
  destruct (clean_in_rows _ _ _ _ Ha C) as [_ Eb]. rewrite Eb, Hroot. cbn [app].
  rewrite t_clean_eq. now apply filter_perm.
Qed.

(* ================================================================ Part F : Use wraps every row *)

Definition wrap_row (router : bytes) (mws : list bytes) (pe : bytes * entry) : bytes * entry :=
  (fst pe, map (fun kv => (fst kv, apply_mw (snd kv) (fst kv) (fst pe) router mws)) (snd pe)).

Lemma t_use_eq : forall c T mws, t_use c T mws = map (wrap_row (c_router c) mws) T.
Proof. reflexivity. Qed.

Lemma lv_apply_mw : forall router mws fuel n, height n <= fuel ->
  lv (apply_mw_node fuel router mws n) = map (wrap_row router mws) (lv n).
Proof.
  intros router mws. induction fuel as [|f IH]; intros n Hh; [rewrite height_eq in Hh; lia|].
  assert (Hc : forall x, In x (nchildren n) -> height x <= f).
  { intros x Ix. apply height_child in Ix. lia. }
  destruct n as [s p i h x c]. cbn [apply_mw_node nchildren] in *.
  rewrite !lv_eq, map_app. cbn [nchildren]. f_equal.
  - rewrite !own_row. cbn [npat nhandlers]. destruct h as [|[k v] h]; reflexivity.
  - clear Hh. induction c as [|y c IHc]; [reflexivity|].
    cbn [map]. rewrite !lvs_cons, map_app. f_equal.
    + apply IH, Hc. now left.
    + apply IHc. intros z Iz. apply Hc. now right.
Qed.

Lemma use_step : forall c T t mws, c_router c = tname t -> Permutation (abs_tree t) T ->
  Permutation (abs_tree (tree_apply_mw t mws)) (t_use c T mws).
Proof.
  intros c T t mws Hname PT. rewrite t_use_eq, Hname. unfold abs_tree, tree_apply_mw. cbn [troot].
  unfold tree_fuel, below. rewrite apply_mw_node_children.
  assert (E : lvs (map (apply_mw_node (height (troot t)) (tname t) mws) (nchildren (troot t))) =
              map (wrap_row (tname t) mws) (lvs (nchildren (troot t)))).
  { assert (Hc : forall x, In x (nchildren (troot t)) -> height x <= height (troot t)).
    { intros x Ix. apply height_child in Ix. lia. }
    induction (nchildren (troot t)) as [|y l IHl]; [reflexivity|].
    cbn [map]. rewrite !lvs_cons, map_app. f_equal.
    - apply lv_apply_mw, Hc. now left.
    - apply IHl. intros z Iz. apply Hc. now right. }
  rewrite E. now apply Permutation_map.
Qed.

(* ================================================================ Part G : the two machines in lock step *)

Lemma tname_build : forall t root num ms, tname (tree_build_methods t root num ms) = tname t.
Proof. reflexivity. Qed.

Lemma tname_tstep : forall t op, tname (tstep t op) = tname t.
Proof.
  intros t [p h mws ms|p ms|prefix|mws]; cbn [tstep].
  - destruct (tree_add t p h mws ms) as [t'| | |] eqn:A; cbn [keep]; try reflexivity.
    apply tree_add_inv2 in A. cbv zeta in A. destruct A as [segs [root' [_ [_ ->]]]]. reflexivity.
  - destruct (tree_remove t p ms) as [t'| | |] eqn:A; cbn [keep]; try reflexivity.
    apply tree_remove_inv in A. destruct A as [->|[root' [rm [_ ->]]]]; reflexivity.
  - destruct (tree_clean t prefix) as [t'| | |] eqn:A; cbn [keep]; try reflexivity.
    apply tree_clean_inv in A. destruct A as [root' [_ ->]]. reflexivity.
  - reflexivity.
Qed.

Lemma tname_hist : forall hist t, tname (fold_left tstep hist t) = tname t.
Proof.
  induction hist as [|op hist IH]; intro t; [reflexivity|]. cbn [fold_left]. now rewrite IH, tname_tstep.
Qed.

Lemma lock_run_app : forall c hist op t0,
  lock_run c (hist ++ [op]) t0 = lock_step c (lock_run c hist t0) op.
Proof. intros c hist op t0. unfold lock_run. now rewrite fold_left_app. Qed.

Lemma lock_fold_fst : forall c hist s, fst (fold_left (lock_step c) hist s) = fold_left tstep hist (fst s).
Proof.
  intros c. induction hist as [|op hist IH]; intro s; [reflexivity|]. cbn [fold_left]. now rewrite IH.
Qed.

Lemma lock_run_fst : forall c hist t0, fst (lock_run c hist t0) = fold_left tstep hist t0.
Proof. intros c hist t0. unfold lock_run. now rewrite lock_fold_fst. Qed.

Lemma hist_tokens_app : forall h1 h2, hist_tokens (h1 ++ h2) = hist_tokens h1 && hist_tokens h2.
Proof. intros h1 h2. unfold hist_tokens. apply forallb_app. Qed.

Lemma reach_nodup : forall name ic trace hist, hist_tokens hist = true ->
  NoDup (akeys (abs_tree (fold_left tstep hist (new_tree name ic trace)))).
Proof.
  intros name ic trace hist W. apply below_nodup. intro p.
  exact (pattern_once_reachable name ic trace hist p W).
Qed.

Theorem lock_perm : forall name ic trace hist, hist_tokens hist = true ->
  Permutation (abs_tree (fold_left tstep hist (new_tree name ic trace))) (table_of name ic trace hist).
Proof.
  intros name ic trace hist. unfold table_of. induction hist as [|op hist IH] using rev_ind; intro W.
  - cbn. apply perm_nil.
  - rewrite hist_tokens_app in W. apply andb_true_iff in W. destruct W as [W Wop].
    specialize (IH W).
    assert (W' : hist_tokens (hist ++ [op]) = true) by (rewrite hist_tokens_app, W, Wop; reflexivity).
    pose proof (reach_nodup name ic trace _ W') as ND'.
    rewrite lock_run_app. rewrite fold_left_app in *. cbn [fold_left] in *.
    unfold lock_step. cbn [fst snd]. rewrite lock_run_fst.
    set (t := fold_left tstep hist (new_tree name ic trace)) in *.
    set (T := snd (lock_run (cfg_of name ic trace) hist (new_tree name ic trace))) in *.
    assert (Hpat : tree_pat_ok t) by apply C03_pat_reachable_l.
    assert (Hhs : tree_hs_ok t) by apply hs_reachable.
    assert (Honce : forall q, pattern_once q (troot t)) by (intro q; exact (pattern_once_reachable name ic trace hist q W)).
    assert (ND : NoDup (akeys (abs_tree t))) by exact (reach_nodup name ic trace hist W).
    assert (Hname : c_router (cfg_of name ic trace) = tname t) by (unfold t; now rewrite tname_hist).
    destruct op as [p h mws ms|p ms|prefix|mws]; cbn [tstep tab_step] in *.
    + destruct (tree_add t p h mws ms) as [t'| | |] eqn:A; cbn [keep] in *; try exact IH.
      exact (add_step _ T t p h mws ms t' Hpat Hname ND ND' IH A).
    + destruct (remove_total_reachable name ic trace hist p ms W) as [t' R]. fold t in R.
      rewrite R. cbn [keep]. exact (remove_step T t p ms t' Hpat Hhs Honce IH R).
    + destruct (clean_total_reachable name ic trace hist prefix W) as [t' R]. fold t in R.
      rewrite R. cbn [keep]. exact (clean_step T t prefix t' Hpat IH R).
    + exact (use_step _ T t mws Hname IH).
Qed.

(* THE TREE IS THE TABLE *)
Theorem C03_tree_is_table_l : forall name ic trace hist p, hist_tokens hist = true ->
  let t := fold_left tstep hist (new_tree name ic trace) in
  let T := table_of name ic trace hist in
  alookup p (abs_tree t) = alookup p T.
Proof.
  intros name ic trace hist p W t T. apply perm_alookup.
  - exact (reach_nodup name ic trace hist W).
  - exact (lock_perm name ic trace hist W).
Qed.

Theorem C03_tree_table_patterns_l : forall name ic trace hist p, hist_tokens hist = true ->
  let t := fold_left tstep hist (new_tree name ic trace) in
  let T := table_of name ic trace hist in
  In p (akeys (abs_tree t)) <-> In p (akeys T).
Proof.
  intros name ic trace hist p W t T.
  pose proof (perm_keys _ _ (lock_perm name ic trace hist W)) as P. split; intro I.
  - exact (Permutation_in _ P I).
  - exact (Permutation_in _ (Permutation_sym P) I).
Qed.

Theorem C03_abs_tree_nodup_l : forall name ic trace hist, hist_tokens hist = true ->
  NoDup (akeys (abs_tree (fold_left tstep hist (new_tree name ic trace)))) /\
  NoDup (akeys (table_of name ic trace hist)).
Proof.
  intros name ic trace hist W. pose proof (reach_nodup name ic trace hist W) as ND. split; [exact ND|].
  exact (Permutation_NoDup (perm_keys _ _ (lock_perm name ic trace hist W)) ND).
Qed.
Print Assumptions C03_tree_is_table_l.

(* ================================================================ Part H : what is served is in the table *)

Lemma lookup_handler_alookup : forall method hs h, lookup_handler method hs = Some h -> alookup method hs = Some h.
Proof. intros method hs h H. unfold lookup_handler in H. destruct (beqb method M405); [discriminate H | exact H]. Qed.

(* a live node of a reachable tree is a row of the table *)
Theorem C03_live_node_is_row_l : forall name ic trace hist n, hist_tokens hist = true ->
  let t := fold_left tstep hist (new_tree name ic trace) in
  desc (troot t) n -> nhandlers n <> [] ->
  alookup (npat n) (table_of name ic trace hist) = Some (nhandlers n).
Proof.
  intros name ic trace hist n W t D Hne.
  rewrite <- (C03_tree_is_table_l name ic trace hist (npat n) W). fold t.
  apply In_alookup_nodup; [exact (reach_nodup name ic trace hist W)|].
  exact (node_In_below _ _ D Hne).
Qed.

(* a row of the table is a live node of the tree *)
Theorem C03_row_is_live_node_l : forall name ic trace hist p e, hist_tokens hist = true ->
  let t := fold_left tstep hist (new_tree name ic trace) in
  alookup p (table_of name ic trace hist) = Some e ->
  exists n, desc (troot t) n /\ npat n = p /\ nhandlers n = e /\ e <> [].
Proof.
  intros name ic trace hist p e W t L.
  rewrite <- (C03_tree_is_table_l name ic trace hist p W) in L. fold t in L.
  apply alookup_In in L. destruct (below_In_node _ _ L) as [d [D [E Hne]]]. injection E as E1 E2.
  exists d. split; [exact D|]. split; [now symmetry|]. split; [now symmetry | now rewrite E2].
Qed.

Theorem C03_served_handler_is_table_entry_partial_l : forall name ic trace hist method path n h ps,
  hist_tokens hist = true ->
  let t := fold_left tstep hist (new_tree name ic trace) in
  let T := table_of name ic trace hist in
  tree_handler t method path [] = HFound true (Some n) h ps -> n <> troot t ->
  alookup (npat n) T = Some (nhandlers n) /\
  alookup method (opt_default [] (alookup (npat n) T)) = Some h.
Proof.
  intros name ic trace hist method path n h ps W t T H Hn.
  destruct (handler_node _ _ _ _ _ _ _ H) as [E|[D [Hne L]]]; [contradiction|].
  pose proof (C03_live_node_is_row_l name ic trace hist n W D Hne) as R. fold T in R.
  split; [exact R|]. rewrite R. cbn [opt_default]. exact (lookup_handler_alookup _ _ _ (L eq_refl)).
Qed.

(* the same for every answer that names a node: 405 answers come from the row's 405 entry *)
Theorem C03_405_handler_is_table_entry_l : forall name ic trace hist method path n h ps,
  hist_tokens hist = true ->
  let t := fold_left tstep hist (new_tree name ic trace) in
  let T := table_of name ic trace hist in
  tree_handler t method path [] = HFound false (Some n) h ps -> n <> troot t ->
  alookup (npat n) T = Some (nhandlers n) /\ lookup_handler method (nhandlers n) = None /\
  alookup M405 (nhandlers n) = Some h.
Proof.
  intros name ic trace hist method path n h ps W t T H Hn.
  destruct (handler_node _ _ _ _ _ _ _ H) as [E|[D [Hne _]]]; [contradiction|].
  pose proof (C03_live_node_is_row_l name ic trace hist n W D Hne) as R. fold T in R.
  split; [exact R|].
  rewrite tree_handler_eq in H.
  destruct (match ttrace t with Some h0 => if beqb method TRACE then Some h0 else None | None => None end) as [h0|];
    [discriminate H|].
  destruct (beqb path (bs "*") || beqb path []).
  - unfold handler_of in H. destruct (Nat.eqb (nsize (troot t)) 0); [discriminate H|].
    destruct (lookup_handler method (nhandlers (troot t))); [discriminate H|].
    destruct (alookup M405 (nhandlers (troot t))); [|discriminate H]. injection H as <- _ _. now elim Hn.
  - destruct (match_children (tree_fuel t) (troot t) path []) as [r q|q|s]; unfold handler_of in H;
      [|discriminate H | discriminate H].
    destruct (Nat.eqb (nsize r) 0); [discriminate H|].
    destruct (lookup_handler method (nhandlers r)) eqn:L; [discriminate H|].
    destruct (alookup M405 (nhandlers r)) eqn:L4; [|discriminate H].
    injection H as <- <- _. now split.
Qed.

(* without [n <> troot t] the statement is false: OPTIONS "*" (and TRACE, and the empty path) are
   answered by the root, whose pattern "" is never a row of the table *)
Theorem C03_served_handler_is_table_entry_refuted_l :
  ~ (forall name ic trace hist method path n h ps, hist_tokens hist = true ->
       let t := fold_left tstep hist (new_tree name ic trace) in
       let T := table_of name ic trace hist in
       tree_handler t method path [] = HFound true (Some n) h ps ->
       alookup method (opt_default [] (alookup (npat n) T)) = Some h).
Proof.
  intro H.
  specialize (H (bs "r") [] false [] OPTIONS (bs "*") (troot (new_tree (bs "r") [] false)) HOptions []
                eq_refl eq_refl).
  discriminate H.
Qed.

(* ================================================================ Part I : Routes()
   [tree_routes] and [spec_routes] both finish with an insertion sort by key; two permutations
   with pairwise different keys sort to the same list *)

Lemma bltb_irrefl : forall a, bltb a a = false.
Proof. induction a as [|x a IH]; cbn [bltb]; [reflexivity|]. now rewrite N.ltb_irrefl. Qed.

Lemma bltb_trans : forall a b c, bltb a b = true -> bltb b c = true -> bltb a c = true.
Proof.
  induction a as [|x a IH]; intros [|y b] [|z c] H1 H2; cbn [bltb] in *; try discriminate; try reflexivity.
  destruct (N.ltb_spec x y), (N.ltb_spec y x), (N.ltb_spec y z), (N.ltb_spec z y),
           (N.ltb_spec x z), (N.ltb_spec z x); try discriminate; try reflexivity; try lia.
  exact (IH _ _ H1 H2).
Qed.

Lemma bltb_tri : forall a b, bltb a b = false -> bltb b a = false -> a = b.
Proof.
  induction a as [|x a IH]; intros [|y b] H1 H2; cbn [bltb] in *; try discriminate; [reflexivity|].
  destruct (N.ltb_spec x y), (N.ltb_spec y x); try discriminate.
  f_equal; [lia | exact (IH _ H1 H2)].
Qed.

Section GSort.
Context {A : Type} (key : A -> bytes).

Fixpoint gins (x : A) (l : list A) : list A :=
  match l with
  | [] => [x]
  | y :: l' => if bltb (key y) (key x) then y :: gins x l' else x :: l
  end.
Definition gsort (l : list A) : list A := fold_right gins [] l.

Inductive ssorted : list A -> Prop :=
| ss_nil : ssorted []
| ss_cons : forall x l, (forall y, In y l -> bltb (key x) (key y) = true) -> ssorted l -> ssorted (x :: l).

Lemma gins_perm : forall x l, Permutation (x :: l) (gins x l).
Proof.
  intros x l. induction l as [|y l IH]; cbn [gins]; [apply Permutation_refl|].
  destruct (bltb (key y) (key x)); [|apply Permutation_refl].
  eapply Permutation_trans; [apply perm_swap | now apply perm_skip].
Qed.

Lemma gsort_perm : forall l, Permutation l (gsort l).
Proof.
  induction l as [|x l IH]; cbn [gsort fold_right]; [apply Permutation_refl|].
  eapply Permutation_trans; [apply perm_skip; exact IH | apply gins_perm].
Qed.

Lemma gins_sorted : forall x l, ssorted l -> ~ In (key x) (map key l) -> ssorted (gins x l).
Proof.
  intros x l S. induction S as [|y l Hy S IH]; intro N; cbn [gins].
  - constructor; [intros y [] | constructor].
  - cbn [map In] in N. destruct (bltb (key y) (key x)) eqn:B.
    + constructor.
      * intros z Iz. apply (Permutation_in _ (Permutation_sym (gins_perm x l))) in Iz.
        destruct Iz as [<-|Iz]; [exact B | now apply Hy].
      * apply IH. intro I. apply N. now right.
    + assert (Bxy : bltb (key x) (key y) = true).
      { destruct (bltb (key x) (key y)) eqn:B2; [reflexivity|]. exfalso. apply N. left.
        symmetry. exact (bltb_tri _ _ B2 B). }
      constructor; [|now constructor].
      intros z [<-|Iz]; [exact Bxy | exact (bltb_trans _ _ _ Bxy (Hy z Iz))].
Qed.

Lemma gsort_sorted : forall l, NoDup (map key l) -> ssorted (gsort l).
Proof.
  induction l as [|x l IH]; intro ND; cbn [gsort fold_right]; [constructor|].
  cbn [map] in ND. inversion ND as [|k ks Nx ND']. subst.
  apply gins_sorted; [now apply IH|]. intro I. apply Nx.
  exact (Permutation_in _ (Permutation_map key (Permutation_sym (gsort_perm l))) I).
Qed.

Lemma ssorted_perm_eq : forall l1 l2, ssorted l1 -> ssorted l2 -> Permutation l1 l2 -> l1 = l2.
Proof.
  intros l1 l2 S1. revert l2. induction S1 as [|x l1 Hx S1 IH]; intros l2 S2 P.
  - apply Permutation_nil in P. now subst.
  - destruct l2 as [|y l2]; [apply Permutation_sym, Permutation_nil in P; discriminate P|].
    inversion S2 as [|y' l2' Hy S2']. subst.
    assert (E : x = y).
    { assert (I1 : In x (y :: l2)) by (apply (Permutation_in _ P); now left).
      assert (I2 : In y (x :: l1)) by (apply (Permutation_in _ (Permutation_sym P)); now left).
      destruct I1 as [->|I1]; [reflexivity|]. destruct I2 as [->|I2]; [reflexivity|]. exfalso.
      pose proof (bltb_trans _ _ _ (Hx y I2) (Hy x I1)) as C. rewrite bltb_irrefl in C. discriminate C. }
    subst y. f_equal. apply IH; [exact S2'|]. exact (Permutation_cons_inv P).
Qed.

Theorem gsort_perm_eq : forall l l', Permutation l l' -> NoDup (map key l) -> gsort l = gsort l'.
Proof.
  intros l l' P ND. apply ssorted_perm_eq.
  - now apply gsort_sorted.
  - apply gsort_sorted. exact (Permutation_NoDup (Permutation_map key P) ND).
  - eapply Permutation_trans; [apply Permutation_sym, gsort_perm|].
    eapply Permutation_trans; [exact P | apply gsort_perm].
Qed.
End GSort.

Lemma sort_bytes_gsort : forall l, sort_bytes l = gsort (fun x => x) l.
Proof.
  induction l as [|x l IH]; [reflexivity|]. unfold sort_bytes, gsort in *. cbn [fold_right]. rewrite IH.
  generalize (fold_right (gins (fun x0 : bytes => x0)) [] l). intro s.
  induction s as [|y s IHs]; [reflexivity|]. cbn [insert_sorted gins]. now rewrite IHs.
Qed.

Lemma asort_gsort : forall (V : Type) (l : list (bytes * V)), asort l = gsort fst l.
Proof.
  intros V. induction l as [|x l IH]; [reflexivity|]. unfold asort, gsort in *. cbn [fold_right]. rewrite IH.
  generalize (fold_right (gins fst) [] l). intro s.
  induction s as [|y s IHs]; [reflexivity|]. cbn [ainsert_sorted gins]. now rewrite IHs.
Qed.

Lemma asort_perm_eq : forall (V : Type) (l l' : list (bytes * V)), Permutation l l' ->
  NoDup (akeys l) -> asort l = asort l'.
Proof. intros V l l' P ND. rewrite !asort_gsort. now apply gsort_perm_eq. Qed.

(* ---------------------------------------------------------------- bit-set = spec_methods *)
Lemma dedup_nodup : forall l, NoDup (dedup l).
Proof.
  induction l as [|x l IH]; cbn [dedup]; [constructor|].
  destruct (mem x l) eqn:M; [exact IH|]. constructor; [|exact IH].
  rewrite Misc4.dedup_In. now apply mem_false.
Qed.

Lemma methods_list_nodup : NoDup methods_list.
Proof. pose proof Misc5.all_keys_nodup as H. unfold Misc5.all_keys in H. now inversion H. Qed.

Lemma user_keys_In : forall (e : entry) m, In m (user_keys e) <-> In m (akeys e) /\ is_auto m = false.
Proof.
  intros e m. unfold user_keys, user_methods. rewrite filter_In.
  split; intros [H1 H2]; (split; [exact H1|]); [now apply negb_true_iff in H2 | now apply negb_true_iff].
Qed.

Lemma methods_of_spec : forall trace n, TreeAllow.hs_ok trace n -> nhandlers n <> [] ->
  methods_of (nmidx n) = spec_methods trace (nhandlers n).
Proof.
  intros trace n Hok Hne. pose proof (hs_ok_allow trace n Hok Hne) as HA.
  apply hs_ok_iff in Hok. destruct Hok as [[E _]|[[[ND [_ [GH _]]] [IO I4]] _]]; [contradiction|].
  unfold methods_of, spec_methods in *. rewrite !sort_bytes_gsort.
  apply gsort_perm_eq; [|rewrite map_id; apply NoDup_filter, methods_list_nodup].
  apply NoDup_Permutation; [apply NoDup_filter, methods_list_nodup | apply dedup_nodup |].
  intro m. specialize (HA m). rewrite Misc4.sort_bytes_In in HA. rewrite HA. clear HA.
  rewrite Misc4.dedup_In.
  pose proof (Misc4.spec_methods_In trace (nhandlers n) m) as HS. rewrite <- HS, Misc4.C04_spec_exact_l.
  rewrite !user_keys_In. unfold TreeAllow.keys. fold (akeys (nhandlers n)).
  split.
  - intros [[Ik N4]|[Tt ->]]; [|right; right; right; now split].
    destruct (is_auto m) eqn:Au; [|left; now split].
    unfold is_auto in Au. apply orb_true_iff in Au. destruct Au as [Au|Au]; [apply orb_true_iff in Au; destruct Au as [Au|Au]|].
    + apply beqb_eq in Au. right. right. now left.
    + apply beqb_eq in Au. subst m. right. left. split; [reflexivity|]. split; [now apply GH | reflexivity].
    + apply beqb_eq in Au. contradiction.
  - intros [[Ik Au]|[[-> [Ig _]]|[->|[Tt ->]]]].
    + left. split; [exact Ik|]. exact (proj2 (proj2 (not_auto_facts m Au))).
    + left. split; [now apply GH | discriminate].
    + left. split; [exact IO | discriminate].
    + right. now split.
Qed.

Lemma sumbits_ge : forall (hs : list (bytes * hterm)) k, In k (akeys hs) ->
  (method_bit k <= fold_right (fun kv acc => method_bit (fst kv) + acc) 0 hs)%N.
Proof.
  induction hs as [|[k0 v] hs IH]; intros k I; [destruct I|]. cbn [fold_right fst].
  destruct I as [<-|I]; [cbn [fst]; lia | specialize (IH k I); lia].
Qed.

Lemma node_midx_pos : forall trace hs, In OPTIONS (akeys hs) -> N.ltb 0 (node_midx trace hs) = true.
Proof.
  intros trace hs I. apply N.ltb_lt. unfold node_midx.
  pose proof (sumbits_ge hs OPTIONS I) as H.
  assert (E : method_bit OPTIONS = 256%N) by (vm_compute; reflexivity). rewrite E in H. lia.
Qed.

(* ---------------------------------------------------------------- the walk of Routes() *)
Definition G (trace : bool) (pe : bytes * entry) : bytes * list bytes := (fst pe, spec_methods trace (snd pe)).

Definition asets {V : Type} (L acc : list (bytes * V)) : list (bytes * V) :=
  fold_left (fun a kv => aset (fst kv) (snd kv) a) L acc.

Lemma asets_app : forall (V : Type) (L1 L2 acc : list (bytes * V)), asets (L1 ++ L2) acc = asets L2 (asets L1 acc).
Proof. intros V L1 L2 acc. unfold asets. apply fold_left_app. Qed.

Lemma routes_in_S : forall f n acc,
  routes_in (S f) n acc =
  fold_left (fun a ch => routes_in f ch a) (nchildren n)
    (if N.ltb 0 (nmidx n) then aset (npat n) (methods_of (nmidx n)) acc else acc).
Proof. reflexivity. Qed.

Lemma routes_in_asets : forall trace f n acc, height n <= f -> all_nodes (TreeAllow.hs_ok trace) n ->
  routes_in f n acc = asets (map (G trace) (lv n)) acc.
Proof.
  intros trace. induction f as [|f IH]; intros n acc Hh Hn; [rewrite height_eq in Hh; lia|].
  rewrite routes_in_S, lv_eq, map_app, asets_app.
  assert (E1 : (if N.ltb 0 (nmidx n) then aset (npat n) (methods_of (nmidx n)) acc else acc) =
               asets (map (G trace) (own n)) acc).
  { pose proof (all_nodes_here _ _ Hn) as Hok. pose proof Hok as Hok'.
    apply hs_ok_iff in Hok'. destruct Hok' as [[Eh Em]|[[_ [IO _]] Em]].
    - rewrite Em, own_row, Eh. reflexivity.
    - assert (Hne : nhandlers n <> []) by (intro E; rewrite E in IO; destruct IO).
      rewrite Em, (node_midx_pos _ _ IO), <- Em, (methods_of_spec trace n Hok Hne).
      rewrite own_row, (row_cons _ _ Hne). reflexivity. }
  rewrite E1. generalize (asets (map (G trace) (own n)) acc). intro a.
  assert (Hc : forall x, In x (nchildren n) -> height x <= f /\ all_nodes (TreeAllow.hs_ok trace) x).
  { intros x Ix. split; [apply height_child in Ix; lia | exact (all_nodes_child _ _ _ Hn Ix)]. }
  revert a. induction (nchildren n) as [|y l IHl]; intro a; [reflexivity|].
  cbn [fold_left]. rewrite lvs_cons, map_app, asets_app.
  destruct (Hc y (or_introl eq_refl)) as [Hy Ay]. rewrite (IH y a Hy Ay).
  apply IHl. intros z Iz. apply Hc. now right.
Qed.

Lemma asets_fresh : forall (V : Type) (L acc : list (bytes * V)), NoDup (akeys acc ++ akeys L) -> asets L acc = acc ++ L.
Proof.
  intros V. induction L as [|[k v] L IH]; intros acc ND; [now rewrite app_nil_r|].
  unfold asets. cbn [fold_left fst snd]. fold (asets L (aset k v acc)).
  assert (Nk : ~ In k (akeys acc)).
  { cbn [akeys map fst] in ND. apply NoDup_remove_2 in ND. intro I. apply ND. apply in_or_app. now left. }
  rewrite (aset_notin _ _ _ Nk), IH; [now rewrite <- app_assoc|].
  unfold akeys in *. rewrite map_app, <- app_assoc. exact ND.
Qed.

Lemma akeys_map_G : forall trace (L : table), akeys (map (G trace) L) = akeys L.
Proof. intros trace L. unfold akeys. rewrite map_map. reflexivity. Qed.

Lemma tree_routes_eq : forall t, tree_hs_ok t -> ~ In (bs "*") (akeys (abs_tree t)) -> NoDup (akeys (abs_tree t)) ->
  tree_routes t = asort ((bs "*", OPTIONS :: (if has_trace t then [TRACE] else [])) :: map (G (has_trace t)) (abs_tree t)).
Proof.
  intros t Hhs Nstar ND. unfold tree_routes. cbv zeta. f_equal.
  set (star := (bs "*", OPTIONS :: (if has_trace t then [TRACE] else []))).
  assert (E : forall l a, (forall x, In x l -> In x (nchildren (troot t))) ->
            fold_left (fun a0 ch => routes_in (tree_fuel t) ch a0) l a = asets (map (G (has_trace t)) (lvs l)) a).
  { induction l as [|y l IHl]; intros a Hl; [reflexivity|]. cbn [fold_left].
    rewrite lvs_cons, map_app, asets_app.
    assert (Iy : In y (nchildren (troot t))) by (apply Hl; now left).
    rewrite (routes_in_asets (has_trace t) (tree_fuel t) y a).
    - apply IHl. intros z Iz. apply Hl. now right.
    - unfold tree_fuel. apply height_child in Iy. lia.
    - now apply Hhs. }
  rewrite (E _ _ (fun x I => I)). fold (below (troot t)). fold (abs_tree t).
  change (star :: map (G (has_trace t)) (abs_tree t)) with ([star] ++ map (G (has_trace t)) (abs_tree t)).
  apply asets_fresh. rewrite akeys_map_G. cbn [akeys map fst app]. constructor; assumption.
Qed.

Theorem C03_routes_exact_partial_l : forall name ic trace hist, hist_tokens hist = true ->
  let t := fold_left tstep hist (new_tree name ic trace) in
  let T := table_of name ic trace hist in
  ~ In (bs "*") (akeys T) ->
  tree_routes t = spec_routes (has_trace t) T.
Proof.
  intros name ic trace hist W t T Nstar.
  pose proof (lock_perm name ic trace hist W) as P. fold t in P. fold T in P.
  pose proof (reach_nodup name ic trace hist W) as ND. fold t in ND.
  assert (Nstar' : ~ In (bs "*") (akeys (abs_tree t))).
  { intro I. apply Nstar. exact (Permutation_in _ (perm_keys _ _ P) I). }
  rewrite (tree_routes_eq t (hs_reachable name ic trace hist) Nstar' ND).
  unfold spec_routes. rewrite !asort_gsort. apply gsort_perm_eq.
  - apply perm_skip. apply Permutation_map. exact P.
  - cbn [map fst]. fold (akeys (map (G (has_trace t)) (abs_tree t))). rewrite akeys_map_G.
    constructor; assumption.
Qed.

(* with a registered route "*" the two lists differ: Routes() is a map and the node's row replaces
   the row of OPTIONS *, the specification lists both *)
Theorem C03_routes_exact_refuted_l :
  ~ (forall name ic trace hist, hist_tokens hist = true ->
       let t := fold_left tstep hist (new_tree name ic trace) in
       tree_routes t = spec_routes (has_trace t) (table_of name ic trace hist)).
Proof.
  intro H. specialize (H (bs "r") [] false [OAdd (bs "*") (HUser (bs "h")) [] [POST]] eq_refl).
  vm_compute in H. discriminate H.
Qed.
Print Assumptions C03_routes_exact_partial_l.

(* ================================================================ examples *)
Definition exa_hist : list top :=
  [ OUse [bs "u0"];
    OAdd (bs "/a") (HUser (bs "ha")) [] [GET; POST];
    OAdd (bs "/a/{id}") (HUser (bs "hid")) [bs "r1"] [GET];
    OAdd (bs "/a") (HUser (bs "dup")) [] [GET];              (* rejected: duplicate method *)
    OAdd (bs "/a/{name}") (HUser (bs "twin")) [] [GET];      (* rejected: ambiguous twin *)
    OAdd (bs "/b/{x:\d+}") (HUser (bs "hb")) [] [];          (* every method *)
    ORemove (bs "/a") [POST];
    OAdd (bs "/c") (HUser (bs "hc")) [] [DELETE];
    ORemove (bs "/c") [DELETE];                              (* last user method: the row goes *)
    OClean (bs "/b");
    OUse [bs "u1"] ].

Definition exa_tree : tree := fold_left tstep exa_hist (new_tree (bs "main") [] true).
Definition exa_table : table := table_of (bs "main") [] true exa_hist.

Example exa_premises :
  hist_tokens exa_hist = true /\ ~ In (bs "*") (akeys exa_table) /\
  all_accepted (new_tree (bs "main") [] true) (firstn 3 exa_hist) = true /\
  all_accepted (new_tree (bs "main") [] true) (firstn 4 exa_hist) = false.
Proof.
  split; [vm_compute; reflexivity|]. split; [|split; vm_compute; reflexivity].
  vm_compute. intros [E|[E|[]]]; discriminate E.
Qed.

Example exa_rows :
  map (fun pe => (fst pe, akeys (snd pe))) exa_table =
    [(bs "/a", [HEAD; GET; OPTIONS; M405]); (bs "/a/{id}", [HEAD; GET; OPTIONS; M405])] /\
  abs_tree exa_tree = exa_table /\
  alookup GET (opt_default [] (alookup (bs "/a/{id}") exa_table)) =
    Some (HWrap (bs "u1") GET (bs "/a/{id}") (bs "main")
            (HWrap (bs "r1") GET (bs "/a/{id}") (bs "main") (HUser (bs "hid")))).
Proof. split; [|split]; vm_compute; reflexivity. Qed.

Example exa_routes :
  tree_routes exa_tree = spec_routes true exa_table /\
  tree_routes exa_tree =
    [(bs "*", [OPTIONS; TRACE]); (bs "/a", [GET; HEAD; OPTIONS; TRACE]); (bs "/a/{id}", [GET; HEAD; OPTIONS; TRACE])].
Proof. split; vm_compute; reflexivity. Qed.

Example exa_served :
  match tree_handler exa_tree GET (bs "/a/7") [] with
  | HFound true (Some n) h ps =>
    n <> troot exa_tree /\ npat n = bs "/a/{id}" /\
    alookup GET (opt_default [] (alookup (npat n) exa_table)) = Some h
  | _ => False
  end.
Proof. vm_compute. split; [discriminate|]. split; reflexivity. Qed.
