From Coq Require Import String.
From Mux Require Import Model.Bytes Model.Context Proofs.BytesFacts.
From Coq Require Import Permutation.

Section C20.
  Variable sc : strconv.

  Definition conv_spec (f : bytes -> bytes * bytes) (zero : bytes) (ps : params) (k : bytes) :=
    ctx_conv f zero ps k = match ctx_get ps k with Some s => f s | None => (zero, err_not_exists) end.
  Definition must_spec (f : bytes -> bytes * bytes) (zero : bytes) (ps : params) (k def : bytes) :=
    ctx_must f ps k def = (if beqb (snd (ctx_conv f zero ps k)) [] then fst (ctx_conv f zero ps k) else def).

  Lemma must_ok f zero ps k def : must_spec f zero ps k def.
  Proof.
    unfold must_spec, ctx_must, ctx_conv. destruct (ctx_get ps k) as [v|]; simpl; [|reflexivity].
    destruct (f v) as [r e]; simpl. now destruct e.
  Qed.

  (* every accessor is a function of Get; Must* returns the default exactly when the strict
     variant fails (its error text is non-empty) *)
  Lemma agree : forall (ps : params) (k dstr dint duint dbool dfloat : bytes),
    ctx_exists ps k = (match ctx_get ps k with Some _ => true | None => false end) /\
    ctx_string ps k = (match ctx_get ps k with Some v => (v, []) | None => ([], err_not_exists) end) /\
    ctx_must_string ps k dstr = (match ctx_get ps k with Some v => v | None => dstr end) /\
    conv_spec (p_int sc) (bs "0") ps k /\ must_spec (p_int sc) (bs "0") ps k dint /\
    conv_spec (p_uint sc) (bs "0") ps k /\ must_spec (p_uint sc) (bs "0") ps k duint /\
    conv_spec (p_bool sc) (bs "false") ps k /\ must_spec (p_bool sc) (bs "false") ps k dbool /\
    conv_spec (p_float sc) (bs "0000000000000000") ps k /\ must_spec (p_float sc) (bs "0000000000000000") ps k dfloat /\
    Permutation (ctx_range ps) ps /\
    (NoDup (akeys ps) -> forall k' v, In (k', v) (ctx_range ps) <-> ctx_get ps k' = Some v).
  Proof.
    intros. repeat match goal with |- _ /\ _ => split end;
      try reflexivity; try apply must_ok.
    - symmetry. apply asort_perm.
    - intros ND k' v. unfold ctx_range, ctx_get. split.
      + intro I. apply In_alookup_nodup; [exact ND|].
        eapply Permutation_in; [symmetry; apply asort_perm | exact I].
      + intro G. apply alookup_In in G. eapply Permutation_in; [apply asort_perm | exact G].
  Qed.

  Lemma map_laws : forall (ps : params) (k v k' : bytes),
    ctx_get (ctx_set ps k v) k' = (if beqb k' k then Some v else ctx_get ps k') /\
    ctx_get (ctx_delete ps k) k' = (if beqb k' k then None else ctx_get ps k') /\
    ctx_get (c_reset ps) k' = None /\ ctx_count (c_reset ps) = O /\
    (NoDup (akeys ps) -> NoDup (akeys (ctx_set ps k v)) /\ NoDup (akeys (ctx_delete ps k))).
  Proof.
    intros. repeat split.
    - apply alookup_aset.
    - apply alookup_adelete.
    - now apply nodup_aset.
    - now apply nodup_adelete.
  Qed.

  Lemma count_set : forall ps k v, NoDup (akeys ps) ->
    ctx_count (ctx_set ps k v) = (if ctx_exists ps k then ctx_count ps else S (ctx_count ps)).
  Proof.
    unfold ctx_count, ctx_set, ctx_exists, ctx_get.
    induction ps as [|[k0 v0] ps IH]; intros k v ND; simpl; [reflexivity|].
    inversion ND; subst.
    destruct (beqb_spec k k0) as [->|N]; simpl; [reflexivity|].
    rewrite IH by assumption. now destruct (alookup k ps).
  Qed.

  Lemma count_delete : forall ps k, NoDup (akeys ps) ->
    ctx_count (ctx_delete ps k) = (if ctx_exists ps k then pred (ctx_count ps) else ctx_count ps).
  Proof.
    unfold ctx_count, ctx_delete, ctx_exists, ctx_get.
    induction ps as [|[k0 v0] ps IH]; intros k ND; simpl; [reflexivity|].
    inversion ND as [|? ? NI ND']; subst.
    destruct (beqb_spec k k0) as [->|N]; simpl.
    - rewrite IH by assumption. apply alookup_None in NI. now rewrite NI.
    - rewrite IH by assumption. destruct (alookup k ps) eqn:E; [|reflexivity].
      destruct ps; [discriminate | reflexivity].
  Qed.

  (* histories over a pooled context *)
  Inductive cop := CSet (k v : bytes) | CDel (k : bytes) | CReset | CDestroy | CNew.
  Definition cstep (s : cstate) (o : cop) : cstate :=
    match o with
    | CSet k v => {| cur := ctx_set (cur s) k v; pool := pool s |}
    | CDel k => {| cur := ctx_delete (cur s) k; pool := pool s |}
    | CReset => {| cur := c_reset (cur s); pool := pool s |}
    | CDestroy => c_destroy s
    | CNew => c_new s
    end.

  (* whatever is in the pool (any earlier history, any dirty contexts), a context obtained
     from it starts empty *)
  Lemma pool_fresh : forall (s : cstate) (h : list cop),
    cur (cstep (fold_left cstep h s) CNew) = [].
  Proof. intros s h. simpl. unfold c_new. now destruct (pool (fold_left cstep h s)). Qed.

  Lemma keys_nodup_hist : forall (h : list cop) (s : cstate),
    NoDup (akeys (cur s)) -> NoDup (akeys (cur (fold_left cstep h s))).
  Proof.
    induction h as [|o h IH]; intros s ND; simpl; [exact ND|].
    apply IH. destruct o; simpl; try (now apply nodup_aset); try (now apply nodup_adelete);
      try constructor.
    - unfold c_destroy. now destruct (Nat.leb _ _).
    - unfold c_new. destruct (pool s); constructor.
  Qed.
End C20.

(* non-vacuity: a concrete context meets the hypotheses *)
Example c20_nonvacuous :
  let ps := ctx_set (ctx_set [] (bs "id") (bs "5")) (bs "k") (bs "x") in
  NoDup (akeys ps) /\ ctx_get ps (bs "id") = Some (bs "5") /\ ctx_count ps = 2%nat.
Proof. vm_compute. repeat split; repeat constructor; simpl; intuition discriminate. Qed.
