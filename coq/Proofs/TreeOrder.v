(* I3 / I4 over histories: in every tree reachable from [new_tree] the children of every node are
   ordered by kind (string < interceptor < regexp < named) and every position stored in the
   first-byte index holds a literal child.  Consequence: the side condition [idx_lit] of
   [match_children_sound_partial] holds on every reachable tree.
   Theorems are re-exported by Props/C02order.v. *)
From Coq Require Import String.
From Mux Require Import Model.Bytes Model.Regex Model.Context Model.Syntax Model.Tree
  Proofs.BytesFacts Proofs.MatchSound Proofs.TreeSafe.

Local Open Scope nat_scope.

Definition is_lit (n : node) : bool := stype_eqb (styp (nseg n)) TString.

(* I3: children are ordered by kind: string < interceptor < regexp < named *)
Fixpoint kind_sorted (l : list node) : Prop :=
  match l with
  | a :: ((b :: _) as l') =>
    (stype_rank (styp (nseg a)) <= stype_rank (styp (nseg b)))%nat /\ kind_sorted l'
  | _ => True
  end.

(* I4 (the part needed here): every position stored in the index holds a literal child *)
Definition idx_points_to_lit (n : node) : Prop :=
  forall b i, In (b, i) (nindexes n) ->
    exists ch, nth_error (nchildren n) i = Some ch /\ is_lit ch = true.

Definition order_ok (n : node) : Prop := kind_sorted (nchildren n) /\ idx_points_to_lit n.
Definition tree_order_ok (t : tree) : Prop := all_nodes order_ok (troot t).

(* ================================================================ ranks *)

Definition rk (n : node) : nat := stype_rank (styp (nseg n)).
Definition ranks (l : list node) : list nat := map rk l.

(* sorted, in the form "every element is below everything after it" *)
Fixpoint nsorted (l : list nat) : Prop :=
  match l with
  | [] => True
  | a :: l' => (forall x, In x l' -> a <= x) /\ nsorted l'
  end.

Lemma kind_sorted_nsorted : forall l, kind_sorted l <-> nsorted (ranks l).
Proof.
  induction l as [|a l IH]; [simpl; tauto|].
  destruct l as [|b l].
  - simpl. split; [intros _; split; [intros x []| exact I] | intros _; exact I].
  - change (kind_sorted (a :: b :: l)) with (rk a <= rk b /\ kind_sorted (b :: l)).
    change (ranks (a :: b :: l)) with (rk a :: ranks (b :: l)).
    cbn [nsorted]. split.
    + intros [Hab Hs]. apply IH in Hs. split; [|exact Hs].
      intros x Ix. change (ranks (b :: l)) with (rk b :: ranks l) in Ix, Hs.
      destruct Ix as [<-|Ix]; [exact Hab|].
      cbn [nsorted] in Hs. destruct Hs as [Hb _]. specialize (Hb x Ix). lia.
    + intros [Ha Hs]. split; [|apply IH; exact Hs].
      apply Ha. change (ranks (b :: l)) with (rk b :: ranks l). now left.
Qed.

Lemma nsorted_nth : forall l i j a b, nsorted l -> i < j ->
  nth_error l i = Some a -> nth_error l j = Some b -> a <= b.
Proof.
  induction l as [|x l IHl]; intros i j a b Hs Hij Hi Hj.
  - destruct i; discriminate.
  - destruct Hs as [Hx Hs]. destruct j as [|j]; [lia|]. simpl in Hj.
    destruct i as [|i]; simpl in Hi.
    + injection Hi as <-. apply Hx. now apply (nth_error_In _ j).
    + apply (IHl i j a b Hs); [lia | exact Hi | exact Hj].
Qed.

Lemma ranks_remove_nth : forall l i, ranks (remove_nth i l) = remove_nth i (ranks l).
Proof.
  induction l as [|x l IHl]; intros i; simpl; [now destruct i|].
  destruct i as [|i]; simpl; [reflexivity|]. f_equal. apply IHl.
Qed.

Lemma nsorted_remove_nth : forall l i, nsorted l -> nsorted (remove_nth i l).
Proof.
  induction l as [|x l IHl]; intros i Hs; [now destruct i|].
  destruct Hs as [Hx Hs]. destruct i as [|i]; simpl; [exact Hs|].
  split; [|now apply IHl]. intros y Iy. apply Hx. now apply (In_remove_nth _ l i).
Qed.

Lemma ranks_replace_nth : forall l i ch',
  (forall ch, nth_error l i = Some ch -> rk ch' = rk ch) ->
  ranks (replace_nth i ch' l) = ranks l.
Proof.
  induction l as [|x l IHl]; intros i ch' H; simpl; [now destruct i|].
  destruct i as [|i]; simpl.
  - f_equal. now apply H.
  - f_equal. apply IHl. intros ch Hn. now apply H.
Qed.

Lemma rank0_string : forall t, stype_rank t = 0 -> t = TString.
Proof. intros [| | |] H; [reflexivity | discriminate | discriminate | discriminate]. Qed.

Lemma is_lit_rk : forall ch, is_lit ch = true <-> rk ch = 0.
Proof. intro ch. unfold is_lit, stype_eqb, rk. simpl. apply Nat.eqb_eq. Qed.

(* the invariant only looks at the kinds of the children and at the index *)
Definition order_ok2 (rs : list nat) (ix : list (N * nat)) : Prop :=
  nsorted rs /\ forall b i, In (b, i) ix -> nth_error rs i = Some 0.

Lemma lit_at_iff : forall c i,
  (exists ch, nth_error c i = Some ch /\ is_lit ch = true) <-> nth_error (ranks c) i = Some 0.
Proof.
  intros c i. unfold ranks. rewrite nth_error_map.
  destruct (nth_error c i) as [x|]; simpl.
  - split.
    + intros [ch [E L]]. injection E as <-. f_equal. now apply is_lit_rk.
    + intro E. injection E as E. exists x. split; [reflexivity | now apply is_lit_rk].
  - split; [intros [ch [E _]]; discriminate | discriminate].
Qed.

Lemma order_ok_iff : forall n, order_ok n <-> order_ok2 (ranks (nchildren n)) (nindexes n).
Proof.
  intro n. unfold order_ok, order_ok2, idx_points_to_lit. split.
  - intros [Hs Hi]. split; [now apply kind_sorted_nsorted|].
    intros b i I. apply lit_at_iff. now apply (Hi b).
  - intros [Hs Hi]. split; [now apply kind_sorted_nsorted|].
    intros b i I. apply lit_at_iff. now apply (Hi b).
Qed.

Lemma order_ok_ext : forall n n', ranks (nchildren n') = ranks (nchildren n) ->
  nindexes n' = nindexes n -> order_ok n -> order_ok n'.
Proof.
  intros n n' Hr Hx H. apply order_ok_iff. rewrite Hr, Hx. now apply order_ok_iff.
Qed.

(* ================================================================ the index *)

Lemma In_idx_set : forall l k v b i, In (b, i) (idx_set k v l) -> (b = k /\ i = v) \/ In (b, i) l.
Proof.
  induction l as [|[k' v'] l IHl]; intros k v b i H; simpl in H.
  - destruct H as [E|[]]. injection E as <- <-. now left.
  - destruct (N.eqb k k').
    + destruct H as [E|H]; [injection E as <- <-; now left | right; now right].
    + destruct H as [E|H]; [right; now left|].
      apply IHl in H. destruct H as [H|H]; [now left | right; now right].
Qed.

(* build_indexes_from only records positions of TString children *)
Lemma build_from_lit : forall c i0 acc ix, build_indexes_from c i0 acc = Some ix ->
  forall b i, In (b, i) ix ->
    In (b, i) acc \/ (i0 <= i /\ nth_error (ranks c) (i - i0) = Some 0).
Proof.
  induction c as [|x c IHc]; intros i0 acc ix H b i I; simpl in H.
  - injection H as <-. now left.
  - assert (Hnext : forall acc', build_indexes_from c (S i0) acc' = Some ix ->
              In (b, i) acc' \/ (i0 <= i /\ nth_error (ranks (x :: c)) (i - i0) = Some 0)).
    { intros acc' H'. destruct (IHc _ _ _ H' b i I) as [Ia|[Hle Hn]]; [now left|].
      right. split; [lia|]. replace (i - i0) with (S (i - S i0)) by lia. exact Hn. }
    destruct (styp (nseg x)) eqn:T; try (now apply Hnext).
    destruct (sval (nseg x)) as [|b0 rest]; [discriminate|].
    destruct (Hnext _ H) as [Ia|R]; [|right; exact R].
    apply In_idx_set in Ia. destruct Ia as [[-> ->]|Ia]; [|now left].
    right. split; [lia|]. rewrite Nat.sub_diag. simpl. unfold rk. now rewrite T.
Qed.

Lemma order_ok2_build : forall cs ix, nsorted (ranks cs) -> build_indexes cs = Ok ix ->
  order_ok2 (ranks cs) ix.
Proof.
  intros cs ix Hs H. unfold build_indexes in H. split; [exact Hs|].
  destruct (Nat.ltb (length cs) indexes_size).
  - injection H as <-. intros b i [].
  - destruct (build_indexes_from cs 0 []) as [x|] eqn:B; [|discriminate]. injection H as <-.
    intros b i I. destruct (build_from_lit _ _ _ _ B b i I) as [[]|[_ Hn]].
    now rewrite Nat.sub_0_r in Hn.
Qed.

Lemma order_ok_build : forall n cs ix, nsorted (ranks cs) -> build_indexes cs = Ok ix ->
  order_ok (set_children n cs ix).
Proof.
  intros n cs ix Hs B. apply order_ok_iff.
  rewrite nchildren_set_children, nindexes_set_children. now apply order_ok2_build.
Qed.

(* ================================================================ the sort *)

Fixpoint sorted_keys (l : list (nat * node)) : Prop :=
  match l with
  | [] => True
  | a :: l' => (forall y, In y l' -> fst a <= fst y) /\ sorted_keys l'
  end.

Lemma sinsert_sorted : forall l x, sorted_keys l -> sorted_keys (sinsert x l).
Proof.
  induction l as [|a l IHl]; intros x Hs; simpl.
  - split; [intros y [] | exact I].
  - destruct Hs as [Ha Hs]. destruct (Nat.ltb (fst a) (fst x)) eqn:L.
    + apply Nat.ltb_lt in L. split; [|now apply IHl].
      intros y Iy. apply In_sinsert in Iy. destruct Iy as [->|Iy]; [lia | now apply Ha].
    + apply Nat.ltb_ge in L. split; [|split; [exact Ha | exact Hs]].
      intros y [<-|Iy]; [exact L|]. specialize (Ha y Iy). lia.
Qed.

Lemma fold_sinsert_sorted : forall l, sorted_keys (fold_right sinsert [] l).
Proof.
  induction l as [|a l IHl]; simpl; [exact I | now apply sinsert_sorted].
Qed.

Lemma In_fold_sinsert : forall l x, In x (fold_right sinsert [] l) -> In x l.
Proof.
  induction l as [|a l IHl]; intros x H; simpl in H; [destruct H|].
  apply In_sinsert in H. destruct H as [->|H]; [now left | right; now apply IHl].
Qed.

Lemma sorted_keys_ranks : forall l, sorted_keys l ->
  (forall k x, In (k, x) l -> k / 10 = rk x) -> nsorted (ranks (map snd l)).
Proof.
  induction l as [|[k x] l IHl]; intros Hs Hk; simpl; [exact I|].
  destruct Hs as [Ha Hs]. split.
  - intros r Ir. unfold ranks in Ir. apply in_map_iff in Ir. destruct Ir as [y [<- Iy]].
    apply in_map_iff in Iy. destruct Iy as [[k' y'] [<- Iy]]. simpl.
    rewrite <- (Hk k x) by (now left). rewrite <- (Hk k' y') by (now right).
    apply Nat.div_le_mono; [lia|]. exact (Ha _ Iy).
  - apply IHl; [exact Hs|]. intros k0 x0 I0. apply Hk. now right.
Qed.

Lemma ssort_nsorted : forall keyed, (forall k x, In (k, x) keyed -> k / 10 = rk x) ->
  nsorted (ranks (ssort keyed)).
Proof.
  intros keyed Hk. unfold ssort. apply sorted_keys_ranks; [apply fold_sinsert_sorted|].
  intros k x I. apply Hk. now apply In_fold_sinsert.
Qed.

Theorem sort_node_sorted : forall n keyed n',
  (forall k x, In (k, x) keyed -> (k / 10 = stype_rank (styp (nseg x)))%nat) ->
  sort_node n keyed = Ok n' -> order_ok n'.
Proof.
  intros n keyed n' Hk H. apply sort_node_inv in H. destruct H as [ix [B ->]].
  apply order_ok_build; [|exact B]. now apply ssort_nsorted.
Qed.

Lemma priority_div : forall x, priority x / 10 = rk x.
Proof.
  intro x. unfold priority, rk. symmetry.
  apply (Nat.div_unique _ 10 _
           ((match nchildren x with [] => 1 | _ => 0 end) + (if sendpoint (nseg x) then 1 else 0))).
  - destruct (nchildren x); destruct (sendpoint (nseg x)); lia.
  - lia.
Qed.

Lemma with_prio_keys : forall c k x, In (k, x) (with_prio c) -> k / 10 = rk x.
Proof.
  intros c k x I. unfold with_prio in I. apply in_map_iff in I. destruct I as [z [E _]].
  injection E as <- <-. apply priority_div.
Qed.

Lemma keyed_app_keys : forall c y0 y, nseg y = nseg y0 ->
  forall k x, In (k, x) (with_prio c ++ [(priority y0, y)]) -> k / 10 = rk x.
Proof.
  intros c y0 y Hseg k x I. apply in_app_or in I. destruct I as [I|[E|[]]].
  - now apply (with_prio_keys c).
  - injection E as <- <-. rewrite priority_div. unfold rk. now rewrite Hseg.
Qed.

(* ================================================================ one level *)

Definition ord (n : node) : Prop := all_nodes order_ok n.

Lemma nseg_set_children : forall n c ix, nseg (set_children n c ix) = nseg n.
Proof. intros [s p i h x c0] c ix. reflexivity. Qed.
Lemma nseg_set_handlers : forall n hs i, nseg (set_handlers n hs i) = nseg n.
Proof. intros [s p i0 h x c] hs i. reflexivity. Qed.

Lemma ord_set_children : forall n cs ix, order_ok (set_children n cs ix) ->
  (forall ch, In ch cs -> ord ch) -> ord (set_children n cs ix).
Proof.
  intros n cs ix Ho Hc. apply all_nodes_intro; [exact Ho|].
  rewrite nchildren_set_children. exact Hc.
Qed.

Lemma ord_same_children : forall n n', ord n -> nchildren n' = nchildren n ->
  nindexes n' = nindexes n -> ord n'.
Proof.
  intros n n' Hn Hc Hx. apply all_nodes_intro.
  - apply (order_ok_ext n); [now rewrite Hc | exact Hx | now apply all_nodes_here].
  - rewrite Hc. intros ch Ich. now apply (all_nodes_child _ n).
Qed.

Lemma ord_set_handlers : forall n hs i, ord n -> ord (set_handlers n hs i).
Proof.
  intros n hs i Hn.
  apply (ord_same_children n); [exact Hn | apply nchildren_set_handlers | apply nindexes_set_handlers].
Qed.

Lemma ord_set_seg : forall n sg, ord n -> ord (set_seg n sg).
Proof.
  intros n sg Hn.
  apply (ord_same_children n); [exact Hn | apply nchildren_set_seg | apply nindexes_set_seg].
Qed.

Lemma ord_leaf : forall sg p i, ord (Node sg p i [] [] []).
Proof.
  intros sg p i. apply all_nodes_intro.
  - split; [exact I | intros b j []].
  - intros ch [].
Qed.

Lemma ord_replace : forall n i ch', ord n -> ord ch' ->
  (forall ch, nth_error (nchildren n) i = Some ch -> nseg ch' = nseg ch) ->
  ord (set_children n (replace_nth i ch' (nchildren n)) (nindexes n)).
Proof.
  intros n i ch' Hn Hc Hseg. apply ord_set_children.
  - apply (order_ok_ext n); [| apply nindexes_set_children | now apply all_nodes_here].
    rewrite nchildren_set_children. apply ranks_replace_nth.
    intros ch Hnth. unfold rk. now rewrite (Hseg ch Hnth).
  - intros x Ix. apply In_replace_nth in Ix. destruct Ix as [->|Ix]; [exact Hc|].
    now apply (all_nodes_child _ n).
Qed.

Lemma sort_node_nseg : forall n keyed n', sort_node n keyed = Ok n' -> nseg n' = nseg n.
Proof.
  intros n keyed n' H. apply sort_node_inv in H. destruct H as [ix [_ ->]].
  apply nseg_set_children.
Qed.

Lemma ord_sort : forall n keyed n', (forall k x, In (k, x) keyed -> k / 10 = rk x) ->
  (forall ch, In ch (map snd keyed) -> ord ch) ->
  sort_node n keyed = Ok n' -> ord n'.
Proof.
  intros n keyed n' Hk Hc H. pose proof (sort_node_sorted _ _ _ Hk H) as Ho.
  apply sort_node_inv in H. destruct H as [ix [B ->]].
  apply ord_set_children; [exact Ho|]. intros ch Ich. apply Hc. now apply In_ssort.
Qed.

(* ================================================================ registration *)

(* the continuation keeps the invariant and the segment of the node it is applied to *)
Definition ord_k (k : node -> res node) : Prop :=
  forall ch ch', ord ch -> k ch = Ok ch' -> ord ch' /\ nseg ch' = nseg ch.

Lemma add_segment_ord : forall fuel ic n seg k n', ord n -> ord_k k ->
  add_segment fuel ic n seg k = Ok n' -> ord n' /\ nseg n' = nseg n.
Proof.
  induction fuel as [|f IH]; intros ic n seg k n' Hn Hk H; [discriminate|].
  rewrite add_segment_S in H. cbv zeta in H.
  destruct (scan_sim seg (nchildren n) 0 None) as [[i|] best] eqn:SC.
  - (* identical child *)
    destruct (nth_error (nchildren n) i) as [ch|] eqn:NTH; [|discriminate].
    apply bind_ok in H. destruct H as [ch' [K H]]. injection H as <-.
    assert (Hch : ord ch).
    { apply (all_nodes_child _ n); [exact Hn | now apply (nth_error_In _ i)]. }
    destruct (Hk ch ch' Hch K) as [Hch' Hseg].
    split; [|apply nseg_set_children].
    apply ord_replace; [exact Hn | exact Hch' |].
    intros ch0 E. rewrite NTH in E. injection E as <-. exact Hseg.
  - destruct best as [[i l]|].
    + (* split *)
      destruct (nth_error (nchildren n) i) as [ch|] eqn:NTH; [|discriminate].
      assert (Hch : ord ch).
      { apply (all_nodes_child _ n); [exact Hn | now apply (nth_error_In _ i)]. }
      assert (Hcont : ord_k (cont_of f ic seg (Z.to_nat l) k)).
      { intros p p' Hp Hc. unfold cont_of in Hc.
        destruct (Nat.eqb (length (sval seg)) (Z.to_nat l)); [now apply (Hk p p')|].
        apply bind_ok in Hc. destruct Hc as [rest [_ Hc]].
        apply bind_ok in Hc. destruct Hc as [s [_ Hc]].
        exact (IH ic p s k p' Hp Hk Hc). }
      destruct (Nat.leb (length (sval (nseg ch))) (Z.to_nat l)).
      * apply bind_ok in H. destruct H as [ch' [K H]]. injection H as <-.
        destruct (Hcont ch ch' Hch K) as [Hch' Hseg].
        split; [|apply nseg_set_children].
        apply ord_replace; [exact Hn | exact Hch' |].
        intros ch0 E. rewrite NTH in E. injection E as <-. exact Hseg.
      * apply bind_ok in H. destruct H as [[s1 s2] [_ H]].
        apply bind_ok in H. destruct H as [ret [SR H]].
        apply bind_ok in H. destruct H as [ret' [K H]].
        assert (Hret : ord ret).
        { apply (ord_sort _ _ _ (with_prio_keys _)) in SR; [exact SR|].
          intros x Ix. rewrite map_snd_with_prio in Ix. destruct Ix as [<-|[]].
          now apply ord_set_seg. }
        destruct (Hcont ret ret' Hret K) as [Hret' Hseg].
        split; [|exact (sort_node_nseg _ _ _ H)].
        apply (ord_sort _ _ _ (keyed_app_keys _ _ _ Hseg)) in H; [exact H|].
        intros x Ix. apply In_keyed_app in Ix. destruct Ix as [Ix| ->]; [|exact Hret'].
        apply In_remove_nth in Ix. now apply (all_nodes_child _ n).
    + (* new child *)
      apply bind_ok in H. destruct H as [nn' [K H]].
      destruct (Hk (new_node n seg) nn' (ord_leaf _ _ _) K) as [Hnn' Hseg].
      split; [|exact (sort_node_nseg _ _ _ H)].
      apply (ord_sort _ _ _ (keyed_app_keys _ _ _ Hseg)) in H; [exact H|].
      intros x Ix. apply In_keyed_app in Ix. destruct Ix as [Ix| ->]; [|exact Hnn'].
      now apply (all_nodes_child _ n).
Qed.

Lemma get_node_ord : forall segs fuel ic n upd n', ord n -> ord_k upd ->
  get_node fuel ic n segs upd = Ok n' -> ord n' /\ nseg n' = nseg n.
Proof.
  induction segs as [|seg rest IH]; intros fuel ic n upd n' Hn Hk H; simpl in H; [discriminate|].
  destruct rest as [|seg2 rest].
  - exact (add_segment_ord _ _ _ _ _ _ Hn Hk H).
  - apply (add_segment_ord _ _ _ _ _ _ Hn) in H; [exact H|].
    intros ch ch' Hch Hc. exact (IH fuel ic ch upd ch' Hch Hk Hc).
Qed.

Lemma add_methods_ord : forall trace router h pattern mws ms,
  ord_k (add_methods trace router h pattern mws ms).
Proof.
  intros trace router h pattern mws ms n n' Hn H. unfold add_methods in H.
  apply bind_ok in H. destruct H as [u [_ H]]. injection H as <-.
  split; [now apply ord_set_handlers | apply nseg_set_handlers].
Qed.

Lemma tree_build_methods_ord : forall t root num ms, ord root ->
  tree_order_ok (tree_build_methods t root num ms).
Proof.
  intros t root num ms Hr. unfold tree_order_ok, tree_build_methods. cbn [troot].
  now apply ord_set_handlers.
Qed.

Theorem order_new_tree : forall name ic trace, tree_order_ok (new_tree name ic trace).
Proof.
  intros name ic trace. unfold new_tree. apply tree_build_methods_ord.
  apply all_nodes_intro.
  - split; [exact I | intros b j []].
  - intros ch [].
Qed.

Theorem order_add : forall t p h mws ms t', tree_order_ok t ->
  tree_add t p h mws ms = Ok t' -> tree_order_ok t'.
Proof.
  intros t p h mws ms t' Hall H. unfold tree_add in H.
  apply bind_ok in H. destruct H as [amb [_ H]].
  assert (H' : (do segs <- split (tic t) p;
                do _ <- check_methods (has_trace t)
                  (match find (tree_fuel t + length p + 2) (troot t) p with
                   | Some n => nhandlers n | None => [] end) []
                  (match ms with [] => any_methods | _ => ms end);
                do root' <- get_node (tree_fuel t + length p + 2) (tic t) (troot t) segs
                  (add_methods (has_trace t) (tname t) h p mws (match ms with [] => any_methods | _ => ms end));
                Ok (tree_build_methods t root' 1 (match ms with [] => any_methods | _ => ms end))) = Ok t').
  { destruct amb as [[p0 [|]]|]; [discriminate | exact H | exact H]. }
  clear H. apply bind_ok in H'. destruct H' as [segs [_ H]].
  apply bind_ok in H. destruct H as [u [_ H]].
  apply bind_ok in H. destruct H as [root' [G H]]. injection H as <-.
  apply get_node_ord in G; [|exact Hall|apply add_methods_ord].
  apply tree_build_methods_ord. exact (proj1 G).
Qed.

(* ================================================================ removal *)

Lemma remove_at_node_ord : forall trace ms n n' rm, ord n ->
  remove_at_node trace ms n = (n', rm) -> ord n' /\ nseg n' = nseg n.
Proof.
  intros trace ms n n' rm Hn H. unfold remove_at_node in H.
  destruct ms as [|m ms].
  - injection H as <- _. split; [now apply ord_set_handlers | apply nseg_set_handlers].
  - destruct (remove_methods (m :: ms) (nhandlers n) []) as [hs1 rm1].
    destruct (Nat.eqb (length hs1) 2 && ahas OPTIONS hs1 && ahas M405 hs1);
      injection H as <- _; (split; [now apply ord_set_handlers | apply nseg_set_handlers]).
Qed.

Lemma remove_finish_ord : forall n i ch' rm n' rm', ord n -> ord ch' ->
  (forall ch, nth_error (nchildren n) i = Some ch -> nseg ch' = nseg ch) ->
  remove_finish n i ch' rm = Ok (Some (n', rm')) -> ord n' /\ nseg n' = nseg n.
Proof.
  intros n i ch' rm n' rm' Hn Hc Hseg H. unfold remove_finish in H.
  destruct (prunable ch').
  - cbv zeta in H. apply bind_ok in H. destruct H as [ix [B H]]. injection H as <- _.
    split; [|apply nseg_set_children].
    apply ord_set_children.
    + apply order_ok_build; [|exact B]. rewrite ranks_remove_nth. apply nsorted_remove_nth.
      exact (proj1 (proj1 (order_ok_iff n) (all_nodes_here _ _ Hn))).
    + intros x Ix. apply In_remove_nth in Ix. now apply (all_nodes_child _ n).
  - injection H as <- _. split; [now apply ord_replace | apply nseg_set_children].
Qed.

Lemma remove_in_ord : forall fuel trace ms n pattern n' rm, ord n ->
  remove_in fuel trace ms n pattern = Ok (Some (n', rm)) -> ord n' /\ nseg n' = nseg n.
Proof.
  induction fuel as [|f IH]; intros trace ms n pattern n' rm Hn H; [discriminate|].
  rewrite remove_in_S in H.
  assert (Hgo : forall c i,
            (forall j ch, nth_error c j = Some ch -> nth_error (nchildren n) (i + j) = Some ch) ->
            remove_go f trace ms n pattern c i = Ok (Some (n', rm)) ->
            ord n' /\ nseg n' = nseg n).
  { induction c as [|ch c IHc]; intros i Hc G; simpl in G; [discriminate|].
    assert (Hpos : nth_error (nchildren n) i = Some ch).
    { rewrite <- (Nat.add_0_r i). now apply Hc. }
    assert (Hch : ord ch).
    { apply (all_nodes_child _ n); [exact Hn | now apply (nth_error_In _ i)]. }
    assert (Hc' : forall j x, nth_error c j = Some x -> nth_error (nchildren n) (S i + j) = Some x).
    { intros j x Hj. replace (S i + j) with (i + S j) by lia. now apply Hc. }
    assert (Hfin : forall ch' removed, ord ch' /\ nseg ch' = nseg ch ->
              remove_finish n i ch' removed = Ok (Some (n', rm)) -> ord n' /\ nseg n' = nseg n).
    { intros ch' removed [Ho Hs] F. apply (remove_finish_ord _ _ _ _ _ _ Hn Ho) in F; [exact F|].
      intros ch0 E. rewrite Hpos in E. injection E as <-. exact Hs. }
    destruct (beqb (sval (nseg ch)) pattern).
    - destruct (remove_at_node trace ms ch) as [ch' removed] eqn:RA.
      apply (Hfin ch' removed); [|exact G].
      exact (remove_at_node_ord _ _ _ _ _ Hch RA).
    - destruct (has_prefix pattern (sval (nseg ch))); [|now apply (IHc (S i))].
      apply bind_ok in G. destruct G as [r [R G]].
      destruct r as [[ch' removed]|]; [|now apply (IHc (S i))].
      apply (Hfin ch' removed); [|exact G].
      exact (IH _ _ _ _ _ _ Hch R). }
  apply (Hgo (nchildren n) O); [|exact H].
  intros j ch Hj. exact Hj.
Qed.

Theorem order_remove : forall t p ms t', tree_order_ok t -> tree_remove t p ms = Ok t' ->
  tree_order_ok t'.
Proof.
  intros t p ms t' Hall H. unfold tree_remove in H.
  apply bind_ok in H. destruct H as [r [R H]].
  destruct r as [[root' removed]|].
  - injection H as <-. apply remove_in_ord in R; [|exact Hall].
    apply tree_build_methods_ord. exact (proj1 R).
  - injection H as <-. exact Hall.
Qed.

(* ================================================================ clean *)

Lemma clean_in_ord : forall fuel n prefix n', ord n ->
  clean_in fuel n prefix = Ok n' -> ord n' /\ nseg n' = nseg n.
Proof.
  induction fuel as [|f IH]; intros n prefix n' Hn H; [discriminate|].
  rewrite clean_in_S in H.
  destruct prefix as [|b prefix].
  - injection H as <-. split; [|apply nseg_set_children].
    apply ord_set_children; [|intros ch []].
    apply order_ok_iff. rewrite nchildren_set_children, nindexes_set_children.
    split; [exact I | intros b0 i []].
  - remember (b :: prefix) as pf eqn:Epf. clear Epf.
    assert (Hgo : forall c cs, (forall ch, In ch c -> ord ch) ->
              clean_go f pf c = Ok cs ->
              (forall x, In x cs -> ord x) /\
              (forall r, In r (ranks cs) -> In r (ranks c)) /\
              (nsorted (ranks c) -> nsorted (ranks cs))).
    { induction c as [|ch c IHc]; intros cs Hc G; simpl in G.
      - injection G as <-. split; [intros x []|]. split; [intros r [] | intros _; exact I].
      - assert (Hch : ord ch) by (apply Hc; now left).
        assert (Hc' : forall y, In y c -> ord y) by (intros y Iy; apply Hc; now right).
        apply bind_ok in G. destruct G as [ch' [C G]].
        apply bind_ok in G. destruct G as [rest [R G]].
        assert (Hch' : ord ch' /\ nseg ch' = nseg ch).
        { destruct (Nat.ltb (length (sval (nseg ch))) (length pf) && has_prefix pf (sval (nseg ch))).
          - exact (IH _ _ _ Hch C).
          - injection C as <-. split; [exact Hch | reflexivity]. }
        destruct Hch' as [Hch' Hseg].
        destruct (IHc rest Hc' R) as [Hall [Hin Hsort]].
        destruct (has_prefix (sval (nseg ch)) pf); injection G as <-.
        + split; [exact Hall|]. split.
          * intros r Ir. simpl. right. now apply Hin.
          * intros [_ Hs]. now apply Hsort.
        + split; [intros x [<-|Ix]; [exact Hch' | now apply Hall]|].
          assert (Erk : rk ch' = rk ch) by (unfold rk; now rewrite Hseg).
          split.
          * intros r Ir. simpl in Ir. simpl. rewrite Erk in Ir.
            destruct Ir as [<-|Ir]; [now left | right; now apply Hin].
          * simpl. intros [Hx Hs]. rewrite Erk. split; [|now apply Hsort].
            intros r Ir. apply Hx. now apply Hin. }
    apply bind_ok in H. destruct H as [cs [G H]].
    apply bind_ok in H. destruct H as [ix [B H]]. injection H as <-.
    split; [|apply nseg_set_children].
    destruct (Hgo (nchildren n) cs) as [Hall [_ Hsort]];
      [intros ch Ich; now apply (all_nodes_child _ n) | exact G |].
    apply ord_set_children; [|exact Hall].
    apply order_ok_build; [|exact B]. apply Hsort.
    exact (proj1 (proj1 (order_ok_iff n) (all_nodes_here _ _ Hn))).
Qed.

Theorem order_clean : forall t prefix t', tree_order_ok t -> tree_clean t prefix = Ok t' ->
  tree_order_ok t'.
Proof.
  intros t prefix t' Hall H. unfold tree_clean in H.
  apply bind_ok in H. destruct H as [root' [C H]]. injection H as <-.
  apply clean_in_ord in C; [|exact Hall].
  apply tree_build_methods_ord. exact (proj1 C).
Qed.

(* ================================================================ middleware *)

Lemma apply_mw_node_nseg : forall fuel router mws n, nseg (apply_mw_node fuel router mws n) = nseg n.
Proof. intros [|f] router mws [s p i h x c]; reflexivity. Qed.

Lemma apply_mw_node_ord : forall fuel router mws n, ord n -> ord (apply_mw_node fuel router mws n).
Proof.
  induction fuel as [|f IH]; intros router mws n Hn; [exact Hn|].
  pose proof (all_nodes_here _ _ Hn) as Ho.
  destruct n as [s p i h x c]. simpl. apply all_nodes_intro.
  - apply (order_ok_ext (Node s p i h x c)); [|reflexivity|exact Ho].
    simpl. unfold ranks. rewrite map_map. apply map_ext.
    intro ch. unfold rk. now rewrite apply_mw_node_nseg.
  - simpl. intros ch Ich. apply in_map_iff in Ich. destruct Ich as [ch0 [<- Ich]].
    apply IH. apply (all_nodes_child _ _ _ Hn). exact Ich.
Qed.

Theorem order_use : forall t mws, tree_order_ok t -> tree_order_ok (tree_apply_mw t mws).
Proof.
  intros t mws Hall. unfold tree_order_ok, tree_apply_mw. cbn [troot].
  now apply apply_mw_node_ord.
Qed.

(* ================================================================ histories *)

Lemma tstep_order : forall t op, tree_order_ok t -> tree_order_ok (tstep t op).
Proof.
  intros t op Ht. destruct op as [p h mws ms|p ms|prefix|mws]; simpl.
  - destruct (tree_add t p h mws ms) as [t'|e|s0|] eqn:E; simpl; try exact Ht.
    exact (order_add _ _ _ _ _ _ Ht E).
  - destruct (tree_remove t p ms) as [t'|e|s0|] eqn:E; simpl; try exact Ht.
    exact (order_remove _ _ _ _ Ht E).
  - destruct (tree_clean t prefix) as [t'|e|s0|] eqn:E; simpl; try exact Ht.
    exact (order_clean _ _ _ Ht E).
  - now apply order_use.
Qed.

Lemma hist_order : forall hist t, tree_order_ok t -> tree_order_ok (fold_left tstep hist t).
Proof.
  induction hist as [|op hist IH]; intros t Ht; simpl; [exact Ht|].
  apply IH. now apply tstep_order.
Qed.

Theorem order_reachable : forall name ic trace hist,
  tree_order_ok (fold_left tstep hist (new_tree name ic trace)).
Proof. intros name ic trace hist. apply hist_order, order_new_tree. Qed.

(* ================================================================ consequences *)

(* "literal text is tried before any parameter", as a statement about the child order *)
Theorem literal_children_first : forall n, order_ok n -> forall i j a b, (i < j)%nat ->
  nth_error (nchildren n) i = Some a -> nth_error (nchildren n) j = Some b ->
  is_lit b = true -> is_lit a = true.
Proof.
  intros n Ho i j a b Hij Hi Hj Hb. apply order_ok_iff in Ho. destruct Ho as [Hs _].
  apply is_lit_rk in Hb. apply is_lit_rk.
  assert (Hle : rk a <= rk b).
  { apply (nsorted_nth (ranks (nchildren n)) i j); [exact Hs | exact Hij | |];
      unfold ranks; rewrite nth_error_map; [now rewrite Hi | now rewrite Hj]. }
  lia.
Qed.

Lemma idx_get_In : forall ix b, In (b, idx_get b ix) ix \/ idx_get b ix = 0.
Proof.
  induction ix as [|[k v] ix IHix]; intro b; simpl; [now right|].
  destruct (N.eqb_spec b k) as [->|Nb]; [left; now left|].
  destruct (IHix b) as [H|H]; [left; now right | now right].
Qed.

Lemma order_ok_idx_lit : forall n, order_ok n -> idx_lit n.
Proof.
  intros n Ho b ch Hne Hn. apply order_ok_iff in Ho. destruct Ho as [Hs Hi].
  assert (Hrk : forall i, nth_error (nchildren n) i = Some ch ->
            nth_error (ranks (nchildren n)) i = Some (rk ch)).
  { intros i E. unfold ranks. rewrite nth_error_map. now rewrite E. }
  assert (H0 : rk ch = 0).
  { destruct (idx_get_In (nindexes n) b) as [Iin|E0].
    - specialize (Hi _ _ Iin). rewrite (Hrk _ Hn) in Hi. now injection Hi.
    - rewrite E0 in Hn. destruct (nindexes n) as [|[b0 i0] ix] eqn:IX; [now elim Hne|].
      assert (Hi0 : nth_error (ranks (nchildren n)) i0 = Some 0) by (apply (Hi b0); now left).
      destruct i0 as [|i0].
      + rewrite (Hrk _ Hn) in Hi0. now injection Hi0.
      + assert (Hle : rk ch <= 0).
        { apply (nsorted_nth (ranks (nchildren n)) 0 (S i0)); [exact Hs | lia | now apply Hrk | exact Hi0]. }
        lia. }
  unfold seg_sets. unfold rk in H0. now rewrite (rank0_string _ H0).
Qed.

Theorem idx_lit_reachable : forall name ic trace hist,
  all_nodes idx_lit (troot (fold_left tstep hist (new_tree name ic trace))).
Proof.
  intros name ic trace hist.
  apply (all_nodes_impl order_ok idx_lit order_ok_idx_lit). apply order_reachable.
Qed.

(* ================================================================ examples *)

(* five literal routes and one parameter under "/" *)
Definition ex_order_hist : list top :=
  [ OAdd (bs "/a") (HUser (bs "ha")) [] [GET];
    OAdd (bs "/{id}") (HUser (bs "hid")) [] [GET];
    OAdd (bs "/b") (HUser (bs "hb")) [] [GET];
    OAdd (bs "/c") (HUser (bs "hc")) [] [GET];
    OAdd (bs "/d") (HUser (bs "hd")) [] [GET];
    OAdd (bs "/e") (HUser (bs "he")) [] [GET] ].

Definition ex_order_tree : tree := fold_left tstep ex_order_hist (new_tree (bs "r") [] true).

Example ex_order_accepted : all_accepted (new_tree (bs "r") [] true) ex_order_hist = true.
Proof. vm_compute. reflexivity. Qed.

(* the root's only child is "/", it has six children, a non-empty index, the literals first *)
Example ex_order_indexed :
  match nchildren (troot ex_order_tree) with
  | [sl] => sval (nseg sl) = bs "/" /\ nindexes sl <> [] /\ length (nindexes sl) = 5 /\
            map is_lit (nchildren sl) = [true; true; true; true; true; false]
  | _ => False
  end.
Proof. vm_compute. repeat split. discriminate. Qed.

Example ex_order_ok : tree_order_ok ex_order_tree /\ all_nodes idx_lit (troot ex_order_tree).
Proof. split; [apply order_reachable | apply idx_lit_reachable]. Qed.

(* the parameter is found through the tail of the list, the literal through the index *)
Example ex_order_match :
  (match tree_handler ex_order_tree GET (bs "/c") [] with
   | HFound true (Some _) (HUser id) [] => id = bs "hc" | _ => False end) /\
  (match tree_handler ex_order_tree GET (bs "/zz") [] with
   | HFound true (Some _) (HUser id) ps => id = bs "hid" /\ ps = [(bs "id", bs "zz")] | _ => False end).
Proof. vm_compute. repeat split. Qed.
