(* Generic driver: reads cases (C id / lines / E) on stdin, hands the decoded lines to
   the extracted [run_suite], prints its output lines.  No interpretation happens here. *)
type n = Model.n

let rec n_of_int (i : int) : n = if i = 0 then Model.N0 else Model.Npos (pos_of_int i)
and pos_of_int i = if i = 1 then Model.XH else if i land 1 = 0 then Model.XO (pos_of_int (i lsr 1)) else Model.XI (pos_of_int (i lsr 1))

let rec int_of_pos = function Model.XH -> 1 | Model.XO p -> 2 * int_of_pos p | Model.XI p -> 2 * int_of_pos p + 1
let int_of_n = function Model.N0 -> 0 | Model.Npos p -> int_of_pos p

let bytes_of_string (s : string) : n list =
  let r = ref [] in
  for i = String.length s - 1 downto 0 do r := n_of_int (Char.code s.[i]) :: !r done; !r

let hexval c = match c with
  | '0'..'9' -> Char.code c - 48 | 'a'..'f' -> Char.code c - 87 | 'A'..'F' -> Char.code c - 55
  | _ -> failwith "bad hex"

let decode_field (f : string) : n list =
  if String.length f > 0 && f.[0] = 'x' then begin
    let r = ref [] in
    let l = (String.length f - 1) / 2 in
    for i = l - 1 downto 0 do
      r := n_of_int (hexval f.[1 + 2*i] * 16 + hexval f.[2 + 2*i]) :: !r
    done; !r
  end else bytes_of_string f

let plain_ok (l : int list) =
  l <> [] && List.hd l <> Char.code 'x' &&
  List.for_all (fun c -> (c >= 48 && c <= 57) || (c >= 65 && c <= 90) || (c >= 97 && c <= 122) || c = 45 || c = 95 || c = 46 || c = 58) l

let encode_field (b : n list) : string =
  let l = List.map int_of_n b in
  if plain_ok l then String.init (List.length l) (fun i -> Char.chr (List.nth l i))
  else begin
    let buf = Buffer.create (2 * List.length l + 1) in
    Buffer.add_char buf 'x';
    List.iter (fun c -> Buffer.add_string buf (Printf.sprintf "%02x" (c land 255))) l;
    Buffer.contents buf
  end

let split_fields (s : string) : string list =
  List.filter (fun x -> x <> "") (String.split_on_char ' ' s)

let () =
  let suite = bytes_of_string Sys.argv.(1) in
  let cur = ref [] and id = ref "" in
  (try
    while true do
      let ln = input_line stdin in
      match split_fields ln with
      | ["C"; i] -> id := i; cur := []
      | ["E"] ->
        let out = Model.run_suite suite (List.rev !cur) in
        print_string ("C " ^ !id ^ "\n");
        List.iter (fun l -> print_string (String.concat " " (List.map encode_field l) ^ "\n")) out
      | [] -> ()
      | fs -> cur := List.map decode_field fs :: !cur
    done
  with End_of_file -> ());
  flush stdout
