setup:
	./check setup
clean:
	rm -rf build coq/*.vo coq/*/*.vo coq/*/*.glob coq/*/*.vok coq/*/*.vos coq/*/.*.aux coq/Makefile.coq coq/Makefile.coq.conf coq/.Makefile.coq.d
.PHONY: setup clean
