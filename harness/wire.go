package main

import (
	"bufio"
	"encoding/hex"
	"fmt"
	"math/rand"
	"os"
	"strings"
)

// W writes cases in the line format read by the extracted driver.
type W struct {
	w     *bufio.Writer
	cases int
	ops   int
	// dist counts generator choices for the evidence file.
	dist map[string]int
}

func newW(path string) *W {
	f, err := os.Create(path)
	if err != nil {
		panic(err)
	}
	return &W{w: bufio.NewWriterSize(f, 1<<20), dist: map[string]int{}}
}

func plainOK(s string) bool {
	if s == "" || s[0] == 'x' {
		return false
	}
	for i := 0; i < len(s); i++ {
		c := s[i]
		if !(c >= '0' && c <= '9' || c >= 'a' && c <= 'z' || c >= 'A' && c <= 'Z' || c == '-' || c == '_' || c == '.' || c == ':') {
			return false
		}
	}
	return true
}

func enc(s string) string {
	if plainOK(s) {
		return s
	}
	return "x" + hex.EncodeToString([]byte(s))
}

func (w *W) line(tag string, fields ...string) {
	w.w.WriteString(tag)
	for _, f := range fields {
		w.w.WriteByte(' ')
		w.w.WriteString(enc(f))
	}
	w.w.WriteByte('\n')
}

func (w *W) Case(id string)     { w.cases++; w.w.WriteString("C " + id + "\n") }
func (w *W) End()               { w.w.WriteString("E\n") }
func (w *W) H(fields ...string) { w.line("H", fields...) }
func (w *W) O(fields ...string) { w.ops++; w.line("O", fields...) }
func (w *W) R(fields ...string) { w.line("R", fields...) }
func (w *W) Count(k string)     { w.dist[k]++ }
func (w *W) Close()             { w.w.Flush() }
func itoa(i int) string         { return fmt.Sprint(i) }
func b2s(b bool) string {
	if b {
		return "1"
	}
	return "0"
}
func pick[T any](r *rand.Rand, xs []T) T { return xs[r.Intn(len(xs))] }
func joinFields(xs []string) string      { return strings.Join(xs, " ") }

func dec(f string) string {
	if len(f) > 0 && f[0] == 'x' {
		b, err := hex.DecodeString(f[1:])
		if err != nil {
			panic(err)
		}
		return string(b)
	}
	return f
}

// readPrograms reads a program file: O lines (other tags ignored), programs separated by C/E lines.
func readPrograms(path string) [][][]string {
	data, err := os.ReadFile(path)
	if err != nil {
		panic(err)
	}
	var progs [][][]string
	var cur [][]string
	for _, ln := range strings.Split(string(data), "\n") {
		f := strings.Fields(ln)
		if len(f) == 0 {
			continue
		}
		switch f[0] {
		case "C":
			if cur != nil {
				progs = append(progs, cur)
			}
			cur = nil
		case "O":
			var op []string
			for _, x := range f[1:] {
				op = append(op, dec(x))
			}
			cur = append(cur, op)
		}
	}
	if cur != nil {
		progs = append(progs, cur)
	}
	return progs
}
