package main

import (
	"sort"
	"fmt"
	"math/rand"
	"net/http"
	"net/http/httptest"
	"os"
	"strings"
	"sync"
	"sync/atomic"
	"time"

	mux "github.com/issue9/mux/v9"
	"github.com/issue9/mux/v9/types"
)

// Stress scenarios run under the race detector in a subprocess (a Go map race is a fatal error
// that recover() cannot catch).  Every reader checks that what it got is admissible.

type rcH struct{ id string }

type raceEnv struct {
	r    *mux.Router[*rcH]
	bad  atomic.Int64
	msgs sync.Map
	digests sync.Map
}

// isoDigest runs a small deterministic history (method subsets added in a random order, some removed) on a
// fresh router and renders everything it answers about methods.
func isoDigest(e *raceEnv, seed int64) string {
	r := rand.New(rand.NewSource(seed))
	rt := newRaceRouter("iso", e)
	all := []string{"GET", "POST", "DELETE", "PUT", "PATCH", "CONNECT"}
	var reg [][2]string
	for k := 2 + r.Intn(3); k > 0; k-- {
		p := "/p" + fmt.Sprint(r.Intn(3))
		m := all[r.Intn(len(all))]
		func() {
			defer func() { recover() }()
			rt.Handle(p, &rcH{"I"}, nil, m)
			reg = append(reg, [2]string{p, m})
		}()
	}
	for k := r.Intn(3); k > 0 && len(reg) > 0; k-- {
		x := reg[r.Intn(len(reg))]
		rt.Remove(x[0], x[1])
	}
	var sb strings.Builder
	sb.WriteString("*=" + doReq(rt, http.MethodOptions, "*").Header().Get("X-Allow") + ";")
	for i := 0; i < 3; i++ {
		w := doReq(rt, http.MethodOptions, "/p"+fmt.Sprint(i))
		sb.WriteString(fmt.Sprintf("p%d=%s/%s;", i, w.Header().Get("X-H"), w.Header().Get("X-Allow")))
	}
	rs := rt.Routes()
	keys := make([]string, 0, len(rs))
	for k := range rs {
		keys = append(keys, k)
	}
	sort.Strings(keys)
	for _, k := range keys {
		sb.WriteString(k + ":" + strings.Join(rs[k], ",") + ";")
	}
	return sb.String()
}

func (e *raceEnv) fail(format string, a ...any) {
	e.bad.Add(1)
	e.msgs.LoadOrStore(fmt.Sprintf(format, a...), true)
}

func newRaceRouter(name string, e *raceEnv, opts ...mux.Option) *mux.Router[*rcH] {
	call := func(w http.ResponseWriter, req *http.Request, route types.Route, h *rcH) {
		if h == nil {
			e.fail("nil handler for %s %s", req.Method, req.URL.Path)
			return
		}
		w.Header().Set("X-H", h.id)
		if h.id == "BOOM" {
			panic("boom")
		}
		if n := route.Node(); n != nil {
			w.Header().Set("X-Pattern", n.Pattern())
			w.Header().Set("X-Allow", n.AllowHeader())
		}
		if p := route.Params(); p != nil {
			w.Header().Set("X-Id", p.MustString("id", "-"))
		}
	}
	return mux.NewRouter[*rcH](name, call, &rcH{"NF"},
		func(types.Node) *rcH { return &rcH{"NA"} }, func(types.Node) *rcH { return &rcH{"OP"} }, opts...)
}

func doReq(h http.Handler, method, path string) *httptest.ResponseRecorder {
	w := httptest.NewRecorder()
	h.ServeHTTP(w, httptest.NewRequest(method, "http://x"+path, nil))
	return w
}

// C06: writers toggle routes (some registrations split and re-merge the nodes of the stable routes),
// readers serve stable and toggled routes, list Routes() and build URLs.
func scenarioC06(d time.Duration, seed int64) int {
	e := &raceEnv{}
	e.r = newRaceRouter("main", e, mux.WithLock(true), mux.WithRecovery(func(w http.ResponseWriter, _ any) { w.WriteHeader(500) }))
	stable := []string{"/stable", "/stable/{id}/x", "/st", "/users/{id}"}
	for _, p := range stable {
		e.r.Handle(p, &rcH{"S:" + p}, nil, http.MethodGet)
	}
	e.r.Handle("/boom/{id}", &rcH{"BOOM"}, nil, http.MethodGet) // its handler panics: recovered requests must not disturb others
	toggles := []string{"/stable/abc", "/sta", "/users/{id}/posts", "/stable/{id}/y", "/t/{id}", "/s", "/users/admin"}
	stop := make(chan struct{})
	var wg sync.WaitGroup
	for wi := 0; wi < 3; wi++ {
		wg.Add(1)
		go func(wi int) {
			defer wg.Done()
			r := rand.New(rand.NewSource(seed + int64(wi)))
			mine := []string{}
			for i, p := range toggles {
				if i%3 == wi {
					mine = append(mine, p)
				}
			}
			for {
				select {
				case <-stop:
					return
				default:
				}
				if r.Intn(6) == 0 {
					// a route only this goroutine ever touches: what it observes must be sequential
					own := fmt.Sprintf("/own%d/{id}", wi)
					e.r.Remove(own)
					func() {
						defer func() { recover() }()
						e.r.Handle(own, &rcH{"O:" + own}, nil, http.MethodPost)
					}()
					if h := doReq(e.r, http.MethodPost, fmt.Sprintf("/own%d/3", wi)).Header().Get("X-H"); h != "O:"+own {
						e.fail("a route registered and used by one goroutine only answered %q", h)
					}
					e.r.Remove(own, http.MethodGet) // removing a method it does not have changes nothing
					if h := doReq(e.r, http.MethodPost, fmt.Sprintf("/own%d/3", wi)).Header().Get("X-H"); h != "O:"+own {
						e.fail("a route registered and used by one goroutine only answered %q after an unrelated Remove", h)
					}
					continue
				}
				p := mine[r.Intn(len(mine))]
				switch r.Intn(4) {
				case 0, 1:
					func() {
						defer func() { recover() }() // duplicate registration panics with an error: fine
						e.r.Handle(p, &rcH{"T:" + p}, nil, []string{http.MethodGet, http.MethodPost}[r.Intn(2)])
					}()
				case 2:
					e.r.Remove(p)
				default:
					e.r.Remove(p, http.MethodPost)
				}
			}
		}(wi)
	}
	var served atomic.Int64
	for ri := 0; ri < 6; ri++ {
		wg.Add(1)
		go func(ri int) {
			defer wg.Done()
			r := rand.New(rand.NewSource(seed*31 + int64(ri)))
			for {
				select {
				case <-stop:
					return
				default:
				}
				switch r.Intn(8) {
				case 0:
					rs := e.r.Routes()
					for _, p := range stable {
						if _, ok := rs[p]; !ok {
							e.fail("Routes() lost the untouched route %s", p)
						}
					}
				case 1:
					if u, err := e.r.URL(true, "/users/{id}", map[string]string{"id": "7"}); err != nil || u != "/users/7" {
						e.fail("URL of an untouched route: %q %v", u, err)
					}
					if u, err := e.r.URL(true, "/stable/{id}/x", map[string]string{"id": "8"}); err != nil || u != "/stable/8/x" {
						e.fail("URL of an untouched route whose node is being split: %q %v", u, err)
					}
				case 2:
					p := toggles[r.Intn(len(toggles))]
					path := strings.ReplaceAll(p, "{id}", "5")
					w := doReq(e.r, http.MethodGet, path)
					h := w.Header().Get("X-H")
					// a toggled route yields its own handler, 404, 405, or an untouched route that also matches
					if !(h == "T:"+p || h == "NF" || h == "NA" || strings.HasPrefix(h, "S:") || strings.HasPrefix(h, "T:")) {
						e.fail("toggled route %s answered by %q", p, h)
					}
				case 4:
					if w := doReq(e.r, http.MethodGet, "/boom/13"); w.Code != 500 {
						e.fail("a panicking handler under the recovery option answered %d", w.Code)
					}
				case 3:
					w := doReq(e.r, http.MethodOptions, "/stable")
					if a := w.Header().Get("X-Allow"); !strings.Contains(a, "GET") || !strings.Contains(a, "OPTIONS") {
						e.fail("Allow of an untouched route: %q", a)
					}
				default:
					for _, tc := range [][3]string{{"/stable", "S:/stable", "-"}, {"/stable/42/x", "S:/stable/{id}/x", "42"},
						{"/st", "S:/st", "-"}, {"/users/9", "S:/users/{id}", "9"}} {
						w := doReq(e.r, http.MethodGet, tc[0])
						if h := w.Header().Get("X-H"); h != tc[1] || w.Header().Get("X-Id") != tc[2] {
							e.fail("untouched route %s served by %q with id %q", tc[0], h, w.Header().Get("X-Id"))
						}
						served.Add(1)
					}
				}
			}
		}(ri)
	}
	// linearizability of Handle: of two concurrent registrations of twin patterns (equal up to parameter
	// names) on a router with no other route, or of the same pattern and method, exactly one is accepted
	wg.Add(1)
	go func() {
		defer wg.Done()
		for round := 0; ; round++ {
			select {
			case <-stop:
				return
			default:
			}
			rr := newRaceRouter("twin", e, mux.WithLock(true))
			pats := [2]string{"/users/{id:[a-z0-9]+}/posts/{p:\\d+}", "/users/{uid:[a-z0-9]+}/posts/{q:\\d+}"}
			if round%3 == 2 {
				pats[1] = pats[0]
			}
			var accepted atomic.Int32
			start := make(chan struct{})
			var tw sync.WaitGroup
			for k := 0; k < 2; k++ {
				tw.Add(1)
				go func(k int) {
					defer tw.Done()
					<-start
					ok := true
					func() {
						defer func() {
							if recover() != nil {
								ok = false
							}
						}()
						rr.Handle(pats[k], &rcH{"W:" + pats[k]}, nil, http.MethodGet)
					}()
					if ok {
						accepted.Add(1)
					}
				}(k)
			}
			close(start)
			tw.Wait()
			if n := accepted.Load(); n != 1 {
				e.fail("%d of two concurrent Handle calls for %s and %s were accepted (Routes: %d)", n, pats[0], pats[1], len(rr.Routes()))
			}
			served.Add(1)
		}
	}()
	time.Sleep(d)
	close(stop)
	wg.Wait()
	fmt.Printf("c06 served=%d inadmissible=%d\n", served.Load(), e.bad.Load())
	e.msgs.Range(func(k, _ any) bool { fmt.Println("INADMISSIBLE:", k); return true })
	if e.bad.Load() > 0 {
		return 3
	}
	return 0
}

// C07: independent instances built, mutated and served in parallel; one frozen router (without
// lock) serving from many goroutines, each request checking its own parameters.
func scenarioC07(d time.Duration, seed int64) int {
	e := &raceEnv{}
	stop := make(chan struct{})
	var wg sync.WaitGroup
	var served atomic.Int64
	// distinct routers, hosts and groups mutated at the same time
	for i := 0; i < 3; i++ {
		wg.Add(1)
		go func(i int) {
			defer wg.Done()
			r := rand.New(rand.NewSource(seed + int64(i)))
			for k := 0; ; k++ {
				select {
				case <-stop:
					return
				default:
				}
				rt := newRaceRouter(fmt.Sprintf("r%d", i), e)
				ms := [][]string{{"GET"}, {"POST", "PUT"}, {"DELETE"}, {"GET", "PATCH"}, {"PATCH"}}[r.Intn(5)]
				rt.Handle("/a/{id}", &rcH{"A"}, nil, ms...)
				rt.Handle("/a/b", &rcH{"B"}, nil, http.MethodGet)
				w := doReq(rt, ms[0], "/a/77")
				if w.Header().Get("X-H") != "A" || w.Header().Get("X-Id") != "77" {
					e.fail("instance %d: own route answered %q id %q", i, w.Header().Get("X-H"), w.Header().Get("X-Id"))
				}
				if a := doReq(rt, http.MethodOptions, "/a/77").Header().Get("X-Allow"); !strings.Contains(a, ms[0]) {
					e.fail("instance %d: Allow %q lacks %s", i, a, ms[0])
				}
				rt.Remove("/a/b")
				hs := mux.NewHosts(false, fmt.Sprintf("h%d.example.com", i), "{sub}.example.org")
				func() {
					defer func() {
						if v := recover(); v != nil {
							e.fail("instance %d: registering an interceptor on a fresh Hosts failed: %v", i, v)
						}
					}()
					hs.RegisterInterceptor(func(s string) bool { return len(s) == i+1 }, "mine", fmt.Sprintf("len%d", i))
					hs.Add("{n:mine}.lan")
				}()
				ctx := types.NewContext()
				req := httptest.NewRequest("GET", "http://x/", nil)
				req.Host = fmt.Sprintf("H%d.example.com:80", i)
				if !hs.Match(req, ctx) {
					e.fail("instance %d: hosts did not match own domain", i)
				}
				ctx.Destroy()
				hs.Delete(fmt.Sprintf("h%d.example.com", i))
				hseed := int64(r.Intn(150))
				if d, old := isoDigest(e, hseed), ""; true {
					if v, ok := e.digests.LoadOrStore(hseed, d); ok {
						old = v.(string)
					} else {
						old = d
					}
					if old != d {
						e.fail("the same history (seed %d) on a fresh router gave different answers at different times: %q vs %q", hseed, old, d)
					}
					if !strings.Contains(d, "*=") || strings.Contains(d, "*=;") {
						e.fail("OPTIONS * without an Allow list: %q", d)
					}
				}
				g := mux.NewGroup[*rcH](func(http.ResponseWriter, *http.Request, types.Route, *rcH) {}, &rcH{"GNF"},
					func(types.Node) *rcH { return &rcH{"NA"} }, func(types.Node) *rcH { return &rcH{"OP"} })
				g.New("x", nil).Handle("/x", &rcH{"X"}, nil, http.MethodGet)
				doReq(g, "GET", "/x")
				served.Add(1)
			}
		}(i)
	}
	// one frozen router, no lock
	fr := newRaceRouter("frozen", e)
	fr.Handle("/users/{id}", &rcH{"U"}, nil, http.MethodGet)
	fr.Handle("/users/{id}/posts/{id2}", &rcH{"P"}, nil, http.MethodGet)
	fr.Handle("/static", &rcH{"S"}, nil, http.MethodGet, http.MethodPost)
	for gi := 0; gi < 8; gi++ {
		wg.Add(1)
		go func(gi int) {
			defer wg.Done()
			for k := 0; ; k++ {
				select {
				case <-stop:
					return
				default:
				}
				id := fmt.Sprintf("%d-%d", gi, k)
				w := doReq(fr, http.MethodGet, "/users/"+id)
				if w.Header().Get("X-H") != "U" || w.Header().Get("X-Id") != id {
					e.fail("frozen router: request for %s saw id %q handler %q", id, w.Header().Get("X-Id"), w.Header().Get("X-H"))
				}
				if w := doReq(fr, http.MethodGet, "/static"); w.Header().Get("X-Id") != "-" {
					e.fail("frozen router: /static saw a foreign parameter %q", w.Header().Get("X-Id"))
				}
				doReq(fr, http.MethodOptions, "/static")
				doReq(fr, http.MethodPut, "/static")
				served.Add(1)
			}
		}(gi)
	}
	time.Sleep(d)
	close(stop)
	wg.Wait()
	// a fresh router answers identically whatever other routers did before it in the process
	ref := ""
	for k := 0; k < 3; k++ {
		rt := newRaceRouter("fresh", e)
		a := doReq(rt, http.MethodOptions, "*").Header().Get("X-Allow")
		rt.Handle("/z", &rcH{"Z"}, nil, http.MethodDelete)
		b := doReq(rt, http.MethodOptions, "/z").Header().Get("X-Allow") + "|" + doReq(rt, http.MethodOptions, "*").Header().Get("X-Allow")
		if k == 0 {
			ref = a + "#" + b
		} else if ref != a+"#"+b {
			e.fail("fresh router differs after unrelated activity: %q vs %q", ref, a+"#"+b)
		}
		if a != "OPTIONS" {
			e.fail("fresh router: OPTIONS * Allow is %q", a)
		}
		other := newRaceRouter("other", e)
		other.Handle("/q", &rcH{"Q"}, nil, http.MethodPatch, http.MethodConnect)
	}
	fmt.Printf("c07 iterations=%d inadmissible=%d\n", served.Load(), e.bad.Load())
	e.msgs.Range(func(k, _ any) bool { fmt.Println("INADMISSIBLE:", k); return true })
	if e.bad.Load() > 0 {
		return 3
	}
	return 0
}

func runRace(scenario string, seconds float64, seed int64) {
	d := time.Duration(seconds * float64(time.Second))
	rc := 0
	switch scenario {
	case "c06":
		rc = scenarioC06(d, seed)
	case "c07":
		rc = scenarioC07(d, seed)
	default:
		fmt.Println("unknown scenario")
		rc = 2
	}
	os.Exit(rc)
}
