package main

import (
	"math/rand"
	"strings"
)

// ---- pattern grammar -------------------------------------------------------------

var litPool = []string{"/", "/a", "/b", "/ab", "/abc", "/ac", "/posts", "/posts/", "/users/", ".html", "-", "/x/", "x", "/p/",
	"abc", "/v1", "/a/b/c", "api", ".", "/c", "/d", "/e", "/f", "/g", "aa", "/log", "/edit", "s", "/x", "a", "b", "/ä", "_", "/1", "/2"}

var icptSets = [][]string{
	{"digit", "digit", "word", "word", "any", "any"},
	{"digit", "digit", "len2", "len2", "nodot", "nodot"},
	{"\\d+", "digit", "all", "all", "even", "even", "none", "none"},
	{},
}

var nameRules = []string{"", "", "", "digit", "word", "any", "len2", "nodot", "all", "even", "\\d+", "[a-z]+", "\\w+", ".+", "[0-9]*",
	"[a-c]+", "\\d+?", "a|ab", "(a|b)+", ".*", "[^/]+", "\\d\\d", "x?y", "[a-z]+\\d*", "v1|v2", "a|ab", "5|77"}

var paramNames = []string{"id", "name", "p", "q", "v", "path", "-id", "-x", "a", "b"}

type patGen struct {
	r     *rand.Rand
	rules []string // rule pool for this case (interceptor names + regexps + empty)
}

func (g *patGen) param(used map[string]bool) string {
	for tries := 0; tries < 10; tries++ {
		n := pick(g.r, paramNames)
		key := strings.TrimPrefix(n, "-")
		if used[key] {
			continue
		}
		used[key] = true
		rule := pick(g.r, g.rules)
		if rule == "" {
			return "{" + n + "}"
		}
		return "{" + n + ":" + rule + "}"
	}
	return "x"
}

// pattern: lit (param lit)* [param]
func (g *patGen) pattern(stems []string) string {
	var sb strings.Builder
	used := map[string]bool{}
	if len(stems) > 0 && g.r.Intn(4) != 0 {
		s := pick(g.r, stems)
		// reuse a prefix of an existing pattern (cut outside braces most of the time)
		cut := g.r.Intn(len(s) + 1)
		if g.r.Intn(5) != 0 {
			for cut > 0 && strings.Count(s[:cut], "{") != strings.Count(s[:cut], "}") {
				cut--
			}
		}
		s = s[:cut]
		sb.WriteString(s)
		for _, n := range paramNames {
			k := strings.TrimPrefix(n, "-")
			if strings.Contains(s, "{"+k) || strings.Contains(s, "{-"+k) {
				used[k] = true
			}
		}
	} else {
		if g.r.Intn(8) != 0 {
			sb.WriteString(pick(g.r, litPool))
		}
	}
	n := g.r.Intn(4)
	for i := 0; i < n; i++ {
		if strings.HasSuffix(sb.String(), "}") {
			sb.WriteString(pick(g.r, litPool))
		}
		switch g.r.Intn(3) {
		case 0:
			sb.WriteString(pick(g.r, litPool))
		default:
			sb.WriteString(g.param(used))
			if g.r.Intn(4) != 0 || i < n-1 {
				sb.WriteString(pick(g.r, litPool))
			}
		}
	}
	if sb.Len() == 0 {
		return "/"
	}
	return sb.String()
}

var malformed = []string{"", "{}", "/{}", "/{:a}", "/{a}{b}", "/{id}/{id}", "/{id}/{-id}", "/{a:[}", "/{a:(}", "/{a:*}", "/{a:a)|(b}",
	"/{", "/}", "/}{", "/a}b", "/a}c", "{a", "/{a:}", "/{-}", "/{-:\\d+}", "/{a}:x", "/x{a}{", "/{a}}", "/{{a}}", "/{a:b:c}", "*", "/*",
	"/{a:)}", "/{a:x**}", "/{a:\\}", "/:{b}", "a:{b}", "/{a}:{b}", "/{a:\\d+}{b}", "/{id:digit}{x}", "/\xff{a}", "/{\xff}", "/{a:\xff}"}

var valuePool = []string{"5", "12", "abc", "a", "b", "ab", "7a", "a.html", "", "x/y", "A", "zz", "0", "x", "a-b", "1.2", "aa", "aaa",
	"ab12", "a/b/c", "é", "\xff", "%2F", " ", "y", "xy", "-", ".", "html", "log", "77", "v1", "v2", "v1beta", "dev2", "577", "a5"}

// instantiate replaces every {..} token of p by a value.
func instantiate(r *rand.Rand, p string, vals []string) string {
	var sb strings.Builder
	for len(p) > 0 {
		if p[0] == '{' {
			e := strings.IndexByte(p, '}')
			if e < 0 {
				sb.WriteString(p)
				break
			}
			sb.WriteString(pick(r, vals))
			p = p[e+1:]
		} else {
			sb.WriteByte(p[0])
			p = p[1:]
		}
	}
	return sb.String()
}

func mutate(r *rand.Rand, s string) string {
	b := []byte(s)
	switch r.Intn(5) {
	case 0:
		if len(b) > 0 {
			i := r.Intn(len(b))
			b = append(b[:i], b[i+1:]...)
		}
	case 1:
		i := r.Intn(len(b) + 1)
		cs := "/a.x-1{}\x00\xff"
		c := cs[r.Intn(len(cs))]
		b = append(b[:i], append([]byte{c}, b[i:]...)...)
	case 2:
		if len(b) > 1 {
			i := r.Intn(len(b) - 1)
			b[i], b[i+1] = b[i+1], b[i]
		}
	case 3:
		b = append(b, pick(r, litPool)...)
	case 4:
		if len(b) > 0 {
			b = b[:r.Intn(len(b))]
		}
	}
	return string(b)
}

var serveMethods = []string{"GET", "GET", "GET", "POST", "HEAD", "OPTIONS", "DELETE", "PUT", "TRACE", "PATCH", "BOGUS", "", "get"}
var handleMethods = []string{"GET", "GET", "POST", "DELETE", "PUT", "PATCH", "CONNECT", "TRACE"}
var badMethods = []string{"HEAD", "OPTIONS", "BOGUS", "", "get", "TRACE", "head", "options", "Post"}

// rtProfile tunes the generic router-program generator for one property.
type rtProfile struct {
	malformedPct  int  // percentage of Handle calls using a malformed / arbitrary pattern
	removePct     int  // percentage of mutation steps that are Remove / Clean
	badMethodPct  int  // percentage of Handle calls with reserved / unknown / duplicate methods
	dumpEvery     bool // dump + routes after every mutation
	probeEvery    bool // witness probes after every mutation
	facades       bool
	use           bool
	urls          bool
	rawPaths      bool
	maxRoutes     int
	literalFanout bool // start with >= 5 literal siblings
	asciiOnly     bool
	repeatObs     bool // re-issue the previous observations after every mutation (before/after comparison)
	syntaxOps     bool // CheckSyntax on every pattern before Handle
	allowProbes   bool // OPTIONS / unused method / OPTIONS * after every mutation
	tracePct      int  // percentage of routers with WithTrace (default 25)
	nProbes       int  // extra probes at the end (default 6..19)
	noIcpt        bool
	facadeHeavy   bool
	longNames     bool // patterns near the int16 limits of the segment parser
	twinPct       int // percentage of Handle calls using a live pattern with renamed parameters
	braceValues   bool
}

// renameParams returns p with every parameter renamed (and its '-' flag toggled sometimes): a pattern
// that differs from p only in parameter names.
func renameParams(r *rand.Rand, p string) string {
	var sb strings.Builder
	k := 0
	for len(p) > 0 {
		if p[0] == '{' {
			e := strings.IndexByte(p, '}')
			if e < 0 {
				break
			}
			inner := p[1:e]
			rule := ""
			if c := strings.IndexByte(inner, ':'); c >= 0 {
				rule = inner[c:]
			}
			k++
			name := pick(r, []string{"n", "m", "k", "z"}) + itoa(k)
			if r.Intn(4) == 0 {
				name = "-" + name
			}
			sb.WriteString("{" + name + rule + "}")
			p = p[e+1:]
		} else {
			sb.WriteByte(p[0])
			p = p[1:]
		}
	}
	sb.WriteString(p)
	return sb.String()
}

// value that is likely to satisfy rule and to avoid the literal bytes of the pattern pool
func valueFor(r *rand.Rand, rule string) string {
	switch rule {
	case "digit", "\\d+", "[0-9]*", "\\d+?":
		return pick(r, []string{"5", "77", "0", "905"})
	case "\\d\\d":
		return pick(r, []string{"77", "90"})
	case "word", "\\w+", "[a-z]+\\d*":
		return pick(r, []string{"q", "zz", "k9", "w"})
	case "[a-z]+":
		return pick(r, []string{"q", "zz", "w"})
	case "len2", "even":
		return pick(r, []string{"77", "zz", "qq"})
	case "[a-c]+", "a|ab", "(a|b)+", "x?y":
		return pick(r, []string{"a", "ab", "y", "b"})
	case "none":
		return "q"
	}
	return pick(r, []string{"5", "77", "q", "zz", "Q9", "w"})
}

// witness builds a request path from pattern p and returns the values used (by bare name).
func witness(r *rand.Rand, p string) (path string, kv []string) {
	var sb strings.Builder
	for len(p) > 0 {
		if p[0] == '{' {
			e := strings.IndexByte(p, '}')
			if e < 0 {
				sb.WriteString(p)
				break
			}
			inner := p[1:e]
			name, rule := inner, ""
			if c := strings.IndexByte(inner, ':'); c >= 0 {
				name, rule = inner[:c], inner[c+1:]
			}
			name = strings.TrimPrefix(name, "-")
			v := valueFor(r, rule)
			kv = append(kv, name, v)
			sb.WriteString(v)
			p = p[e+1:]
		} else {
			sb.WriteByte(p[0])
			p = p[1:]
		}
	}
	return sb.String(), kv
}

func genRT(pr rtProfile) func(r *rand.Rand, w *W) [][]string {
	return func(r *rand.Rand, w *W) [][]string {
		ics := pick(r, icptSets)
		tp := pr.tracePct
		if tp == 0 {
			tp = 25
		}
		trace := r.Intn(100) < tp
		if pr.noIcpt {
			ics = nil
		}
		domain := pick(r, []string{"", "", "https://example.com", "https://example.com/"})
		cfg := append([]string{"cfg", b2s(trace), pick(r, []string{"main", "r1", "api"}), domain}, list(ics...)...)
		ops := [][]string{cfg}
		g := &patGen{r: r}
		// rule pool of this case: interceptor names of the set, a few regexps, empty
		g.rules = []string{"", ""}
		for i := 0; i < len(ics); i += 2 {
			g.rules = append(g.rules, ics[i])
		}
		for i := 0; i < 3; i++ {
			g.rules = append(g.rules, pick(r, nameRules))
		}
		var stems []string
		pool := []string{}
		mwN := 0
		sharedGroups, sharedLen := 0, 0
		newMws := func(max int) []string {
			var ids []string
			if max >= 1 && r.Intn(5) == 0 { // a prefix of a middleware array other calls also take prefixes of:
				// first a short prefix, later longer ones (`common[:1]...` then `common...`)
				if sharedGroups == 0 || sharedLen >= 4 {
					sharedGroups++
					sharedLen = 0
				}
				sharedLen++
				grp := "S" + itoa(sharedGroups)
				for i := 0; i < sharedLen; i++ {
					ids = append(ids, grp+"."+itoa(i))
				}
				w.Count("shared-middleware-array")
				return ids
			}
			for i := r.Intn(max + 1); i > 0; i-- {
				mwN++
				ids = append(ids, "m"+itoa(mwN))
			}
			return ids
		}
		facIDs := []string{"r"}
		hid := 0
		var lastObs [][]string
		observe := func() {
			if pr.repeatObs && lastObs != nil {
				ops = append(ops, lastObs...)
			}
			var obs [][]string
			if pr.dumpEvery {
				obs = append(obs, []string{"dump"}, []string{"routes"})
			}
			if pr.probeEvery {
				// one simple witness per pool pattern
				for _, p := range pool {
					path, kv := witness(r, p)
					obs = append(obs, append([]string{"serve", pick(r, serveMethods), path, "w", p}, list(kv...)...))
				}
			}
			if pr.allowProbes {
				for _, p := range pool {
					path, kv := witness(r, p)
					obs = append(obs, append([]string{"serve", "OPTIONS", path, "w", p}, list(kv...)...))
					obs = append(obs, append([]string{"serve", pick(r, []string{"CONNECT", "PATCH", "BOGUS", "HEAD"}), path, "w", p}, list(kv...)...))
				}
				obs = append(obs, []string{"serve", "OPTIONS", "*"})
			}
			if pr.urls && len(pool) > 0 {
				// strict URL of pool patterns after every mutation (a removed or cleaned route must stop building)
				for k := 0; k < 2; k++ {
					p := pick(r, pool)
					_, kv := witness(r, p)
					obs = append(obs, append([]string{"url", "r", "1", p}, list(kv...)...))
				}
			}
			ops = append(ops, obs...)
			lastObs = obs
		}
		if pr.allowProbes {
			ops = append(ops, []string{"serve", "OPTIONS", "*"}, []string{"routes"})
		}
		if pr.literalFanout && r.Intn(2) == 0 {
			base := pick(r, []string{"/", "/api/", "", "/{id}/"})
			for _, c := range []string{"a", "b", "c", "d", "e", "f"}[:5+r.Intn(2)] {
				p := base + c + pick(r, []string{"", "x", "/y"})
				hid++
				ops = append(ops, append([]string{"handle", "r", p, "h" + itoa(hid)}, append(list(), list("GET")...)...))
				pool = append(pool, p)
				stems = append(stems, p)
			}
			w.Count("literal-fanout")
		}
		// history shapes that need a conjunction random walks rarely produce
		if r.Intn(100) < 30 {
			base := pick(r, []string{"/t", "/items", "/u", "", "/api/v"})
			addH := func(p string, ms ...string) {
				hid++
				var mws []string
				if pr.use {
					mws = newMws(1)
				}
				ops = append(ops, append([]string{"handle", "r", p, "h" + itoa(hid)}, append(list(mws...), list(ms...)...)...))
				pool = append(pool, p)
				stems = append(stems, p)
			}
			switch r.Intn(14) {
			case 0: // a parameter route that is a prefix of another one, emptied by explicit method lists, then its twin
				par := pick(r, []string{"{id}", "{id:digit}", "{id:\\d+}", "{id:[a-z]+}"})
				if par == "{id:digit}" && len(ics) == 0 {
					par = "{id}"
				}
				p := base + "/" + par + "/tags"
				addH(p, "GET", "POST")
				addH(p+"/"+pick(r, []string{"{tag}", "x", "{tag:\\d+}"}), "GET")
				observe()
				ops = append(ops, append([]string{"remove", "r", p}, list("POST")...))
				ops = append(ops, append([]string{"remove", "r", p}, list("GET")...))
				observe()
				wpath, kv := witness(r, p)
				ops = append(ops, append([]string{"serve", pick(r, []string{"GET", "POST", "OPTIONS"}), wpath, "w", p}, list(kv...)...))
				addH(renameParams(r, p), "GET")
				w.Count("shape-emptied-prefix-route")
			case 1: // split of a node whose route exists, then a method added to it
				addH(base+"/posts/author", "GET")
				addH(base+"/posts/abc", "GET")
				addH(base+"/posts/author", "POST")
				if r.Intn(2) == 0 {
					ops = append(ops, append([]string{"remove", "r", base + "/posts/abc"}, list()...))
					addH(base+"/posts/author", "PUT")
				}
				w.Count("shape-split-then-add")
			case 2: // sibling parameter branches that differ only after a capture
				addH(base+"/{id}/{page:\\d+}", "GET")
				addH(base+"/{id}/{action}/log", "GET")
				addH(base+"/{uid}/alpha/extra", "GET")
				for _, c := range []string{"alpha", "beta", "gamma", "delta", "eps"} {
					if r.Intn(3) != 0 {
						addH(base+"/{id}/"+c, "GET")
					}
				}
				ops = append(ops, []string{"serve", "GET", base + "/5/7/log"}, []string{"serve", "GET", base + "/7/alpha/extra"}, []string{"serve", "GET", base + "/7/alpha/x"})
				w.Count("shape-sibling-params")
			case 3: // >= 5 literal siblings next to a parameter, under a literal node that is consumed whole
				for _, c := range []string{"a", "b", "c", "d", "e"} {
					addH(base+"/v/"+c+"/meta", "GET")
				}
				addH(base+"/v/{name}/meta", "GET")
				addH(base+"/v/{name:[a-z]+}/m", "GET")
				ops = append(ops, []string{"serve", "GET", base + "/v/a/x/meta"}, []string{"serve", "GET", base + "/v/b/meta"}, []string{"serve", "GET", base + "/v/a/m"})
				w.Count("shape-index-fallback")
			case 4: // two-level pruning: all routes below a handler-less prefix node removed one by one
				for _, c := range []string{"a", "b", "c", "d"} {
					addH(base+"/"+c, "GET")
				}
				addH(base+"/e1", "GET")
				addH(base+"/e2", "GET")
				addH(base+"/{name}", "GET")
				ops = append(ops, append([]string{"remove", "r", base + "/e1"}, list()...))
				ops = append(ops, append([]string{"remove", "r", base + "/e2"}, list()...))
				w.Count("shape-two-level-prune")
			case 5: // a name used once capturing and once ignored (rejected: same name twice); were it accepted, abandoning
				// the ignored branch would undo the ancestor's capture
				ig := pick(r, []string{"{-id:\\d+}", "{-id}", "{-id:[0-9]+}"})
				addH(base+"/{id}/a/"+ig+"/p", "GET")
				addH(base+"/{id}/a/"+ig+"/q", "GET")
				addH(base+"/{id}/a/{x}/r", "GET")
				ops = append(ops, []string{"serve", "GET", base + "/5/a/7/r"}, []string{"serve", "GET", base + "/5/a/7/p"})
				w.Count("shape-dup-name-ignored")
			case 6: // kinds that compete at one position with every combination of the two sort adjustments (leaf, end point):
				// a parameter node with children registered before an end-point leaf of the next higher kind
				hi, lo := "{path:[a-z0-9.]+}", "{name}" // no suitable interceptor configured: regexp against named
				for i := 0; i < len(ics); i += 2 {
					if ics[i] == "any" || ics[i] == "all" {
						hi, lo = "{path:"+ics[i]+"}", "{name:[a-z0-9]+}"
					}
				}
				addH(base+"/files/"+lo+".htm", "GET")
				addH(base+"/files/"+lo+".html", "GET")
				addH(base+"/files/"+hi, "GET")
				addH(base+"/files/{rest}", "POST")
				ops = append(ops, []string{"serve", "GET", base + "/files/index.html"}, []string{"serve", "GET", base + "/files/12.html"},
					[]string{"serve", "GET", base + "/files/a.htm"}, []string{"serve", "POST", base + "/files/a.htm"})
				w.Count("shape-kind-order-adjustments")
			case 7: // an end-point parameter label that stays a sibling of its own extension ("{id:\\d+}" next to
				// "{id:\\d+}/posts": never merged, nothing may be cut right after '}'), then a removal by prefix
				par := pick(r, []string{"{id:\\d+}", "{id:[0-9]+}", "{id}"})
				addH(base+"/users/"+par, "GET")
				addH(base+"/users/"+par+"/posts", "GET")
				if r.Intn(2) == 0 {
					addH(base+"/users/"+par+"/posts/{n}", "GET")
				}
				observe()
				if pr.facades || r.Intn(2) == 0 {
					id := "c" + itoa(len(ops))
					ops = append(ops, append([]string{"prefix", id, "r", base + "/users/" + par + pick(r, []string{"/", "/posts", "/p"})}, list()...), []string{"clean", id})
				} else {
					ops = append(ops, append([]string{"remove", "r", base + "/users/" + par + "/posts"}, list()...))
				}
				ops = append(ops, []string{"serve", "GET", base + "/users/5/posts"}, []string{"serve", "GET", base + "/users/5"})
				w.Count("shape-endpoint-param-and-extension")
			case 8: // >= 5 literal siblings survive the removal (by prefix, by pattern) of one that is not the last:
				// the first-byte index must be rebuilt, the survivors after the removed one move up
				sib := []string{"alpha", "beta", "gamma", "delta", "eps", "zeta", "omega"}[:6+r.Intn(2)]
				for _, c := range sib {
					addH(base+"/"+c, "GET")
				}
				if r.Intn(2) == 0 {
					addH(base+"/{any}", "GET")
				}
				victim := sib[r.Intn(len(sib)-1)]
				if pr.facades && r.Intn(3) != 0 {
					id := "c" + itoa(len(ops))
					ops = append(ops, append([]string{"prefix", id, "r", base + "/" + victim[:1+r.Intn(len(victim))]}, list()...), []string{"clean", id})
				} else {
					ops = append(ops, append([]string{"remove", "r", base + "/" + victim}, list()...))
				}
				for _, c := range sib {
					ops = append(ops, []string{"serve", "GET", base + "/" + c})
				}
				w.Count("shape-index-after-removal")
			case 9: // a facade object created BEFORE a Use call registers a route AFTER it (and a nested one likewise)
				if !pr.facades || !pr.use {
					addH(base+"/late", "GET")
					break
				}
				fid := "s" + itoa(len(ops))
				kind := pick(r, []string{"prefix", "prefix", "resource"})
				pat := base + "/z" + pick(r, []string{"", "/{id}"})
				ops = append(ops, append([]string{kind, fid, "r", pat}, list(newMws(1)...)...))
				tgt, tgtIsPrefix, full := fid, kind == "prefix", pat
				if kind == "prefix" && r.Intn(2) == 0 {
					tgt = fid + "n"
					k2 := pick(r, []string{"prefix", "resource"})
					tgtIsPrefix = k2 == "prefix"
					full += "/n"
					ops = append(ops, append([]string{k2, tgt, fid, "/n"}, list(newMws(1)...)...))
				}
				ops = append(ops, append([]string{"use"}, list(newMws(2)...)...))
				hid++
				hp := pick(r, []string{"/late", "", "/l/{x}"})
				if tgtIsPrefix {
					full += hp
				}
				ops = append(ops, append([]string{"handle", tgt, hp, "h" + itoa(hid)}, append(list(newMws(1)...), list("GET")...)...))
				concrete := strings.NewReplacer("{id}", "5", "{x}", "7").Replace(full)
				ops = append(ops, []string{"serve", "GET", concrete}, []string{"serve", "OPTIONS", concrete}, []string{"serve", "POST", concrete})
				pool = append(pool, full)
				{
					// two nested prefixes under DIFFERENT parents are handed the same slice of one caller-owned array
					// (spare capacity behind it): each must keep the middlewares of its own parent (a callee that
					// appends to its argument in place, or keeps it without copying, mixes them up).  No random draw
					// and no pool entry here: the rest of the case is generated as before.
					sg := "S9x" + itoa(len(ops))
					pa, pb := fid+"a", fid+"b"
					ops = append(ops, append([]string{"prefix", pa, "r", base + "/adm"}, list("m"+sg+"a")...))
					ops = append(ops, append([]string{"prefix", pb, "r", base + "/pub"}, list("m"+sg+"b")...))
					ops = append(ops, append([]string{"prefix", pa + "n", pa, "/api"}, list(sg+".0", sg+".1")...))
					ops = append(ops, append([]string{"prefix", pb + "n", pb, "/api"}, list(sg+".0", sg+".1")...))
					hid++
					ops = append(ops, append([]string{"handle", pa + "n", "/x", "h" + itoa(hid)}, append(list("m"+sg+"r"), list("GET")...)...))
					hid++
					ops = append(ops, append([]string{"handle", pb + "n", "/x", "h" + itoa(hid)}, append(list("m"+sg+"r"), list("GET")...)...))
					ops = append(ops, []string{"serve", "GET", base + "/adm/api/x"}, []string{"serve", "POST", base + "/adm/api/x"},
						[]string{"serve", "GET", base + "/pub/api/x"})
					w.Count("shape-shared-slice-under-two-parents")
				}
				observe()
				w.Count("shape-facade-before-use")
			case 10: // a literal label that begins with '{' (an unterminated brace is literal text) among >= 5 siblings,
				// next to parameter siblings; then the same pattern and method again (must be rejected)
				for _, c := range []string{"a", "b", "c", "d"} {
					addH(base+"/p/"+c, "GET")
				}
				addH(base+"/p/{x", "GET")
				addH(base+"/p/{id}", "GET")
				addH(base+"/p/{id}", "GET")
				addH(base+"/p/{id}", "POST", "GET")
				ops = append(ops, []string{"serve", "GET", base + "/p/7"}, []string{"serve", "POST", base + "/p/7"}, []string{"serve", "GET", base + "/p/{x"})
				w.Count("shape-brace-literal-among-siblings")
			case 11: // two routes that share literal text after differently named parameters; a method added later to the
				// longer one is not ambiguous with anything
				addH(base+"/p/{a}/x/{c}", "GET")
				addH(base+"/p/{b}/x/{c}/more", "GET")
				addH(base+"/p/{b}/x/{c}/more", "POST")
				addH(base+"/p/{a}/x/{c}", "PUT")
				ops = append(ops, []string{"serve", "POST", base + "/p/1/x/2/more"}, []string{"serve", "OPTIONS", base + "/p/1/x/2/more"})
				w.Count("shape-shared-text-after-parameters")
			case 12: // same-kind siblings whose stored order no longer reflects their weights (one became an inner node after
				// it was placed); the removal of an unrelated sibling must not reorder them
				addH(base+"/zzz", "GET")
				addH(base+"/{a}/x", "GET")
				addH(base+"/{b}/{c}", "GET")
				ops = append(ops, []string{"serve", "GET", base + "/v/x"}, []string{"serve", "GET", base + "/v/w"})
				ops = append(ops, append([]string{"remove", "r", base + "/zzz"}, list()...))
				ops = append(ops, []string{"serve", "GET", base + "/v/x"}, []string{"serve", "GET", base + "/v/w"})
				w.Count("shape-stale-sibling-order")
			default: // '-' parameters with alternations
				addH(base+"/{-ver:v1|v2}/users", "GET")
				addH(base+"/{kind:a|ab}/x", "GET")
				ops = append(ops, []string{"serve", "GET", base + "/v1beta/users"}, []string{"serve", "GET", base + "/dev2/users"},
					[]string{"serve", "GET", base + "/v2/users"}, []string{"serve", "GET", base + "/abc/x"})
				w.Count("shape-alternation")
			}
			observe()
		}
		if pr.longNames && r.Intn(12) == 0 {
			n := pick(r, []int{32760, 32766, 32767, 32768, 40000, 65530})
			hid++
			ops = append(ops, append([]string{"handle", "r", "/users/{id}", "h" + itoa(hid)}, append(list(), list("GET")...)...))
			long := "/users/{" + strings.Repeat("n", n) + "}"
			ops = append(ops, []string{"syntax", long})
			hid++
			ops = append(ops, append([]string{"handle", "r", long, "h" + itoa(hid)}, append(list(), list("GET")...)...))
			ops = append(ops, []string{"serve", "GET", "/users/5"})
			w.Count("shape-long-name")
		}
		nMut := 1 + r.Intn(pr.maxRoutes)
		for i := 0; i < nMut; i++ {
			x := r.Intn(100)
			switch {
			case x < pr.removePct && len(pool) > 0:
				switch r.Intn(6) {
				case 0:
					if pr.facades && len(facIDs) > 1 && r.Intn(2) == 0 {
						ops = append(ops, []string{"clean", pick(r, facIDs)})
					} else if r.Intn(3) == 0 {
						ops = append(ops, []string{"clean", "r"})
					} else {
						ops = append(ops, append([]string{"remove", "r", pick(r, pool)}, list()...))
					}
					w.Count("clean")
				case 1:
					if pr.facadeHeavy && len(facIDs) > 1 {
						ops = append(ops, append([]string{"remove", pick(r, facIDs[1:]), pick(r, []string{"", "/a", "x", "/{id}"})}, list(pick(r, handleMethods))...))
					} else {
						ops = append(ops, append([]string{"remove", "r", pick(r, pool)}, list()...))
					}
				case 2:
					if pr.facades {
						// Prefix.Clean with a prefix of a live pattern (cut anywhere, also inside a token)
						p := pick(r, pool)
						id := "c" + itoa(len(ops))
						ops = append(ops, append([]string{"prefix", id, "r", p[:r.Intn(len(p)+1)]}, list()...), []string{"clean", id})
						w.Count("prefix-clean")
						break
					}
					fallthrough
				default:
					var ms []string
					for k := 1 + r.Intn(2); k > 0; k-- {
						if r.Intn(5) == 0 {
							ms = append(ms, pick(r, badMethods))
						} else {
							ms = append(ms, pick(r, handleMethods))
						}
					}
					if len(ms) > 0 && r.Intn(5) == 0 {
						ms = append(ms, ms[0]) // the same method twice in one call
					}
					ops = append(ops, append([]string{"remove", "r", pick(r, pool)}, list(ms...)...))
				}
				w.Count("remove")
			case pr.use && x < pr.removePct+8:
				ops = append(ops, append([]string{"use"}, list(newMws(2)...)...))
			case pr.facades && (x < pr.removePct+20 || (pr.facadeHeavy && x < pr.removePct+35)):
				id := "f" + itoa(len(facIDs))
				kind := pick(r, []string{"prefix", "prefix", "resource"})
				parent := pick(r, facIDs)
				pat := g.pattern(stems)
				if kind == "prefix" && r.Intn(3) == 0 {
					pat = pick(r, []string{"", "/p", "/api/", "/p/{i", "/{v}"})
				}
				ops = append(ops, append([]string{kind, id, parent, pat}, list(newMws(2)...)...))
				if kind == "prefix" {
					facIDs = append(facIDs, id)
				} else if r.Intn(2) == 0 {
					facIDs = append(facIDs, id)
				}
			default:
				var p string
				if r.Intn(100) < pr.malformedPct {
					if r.Intn(3) == 0 {
						p = mutate(r, g.pattern(stems))
					} else {
						p = pick(r, malformed)
					}
					w.Count("malformed-pattern")
				} else if len(pool) > 0 && r.Intn(100) < pr.twinPct {
					p = renameParams(r, pick(r, pool))
					w.Count("twin-pattern")
				} else if len(pool) > 0 && r.Intn(5) == 0 {
					p = pick(r, pool) // same pattern again (other method / duplicate)
				} else {
					p = g.pattern(stems)
				}
				var ms []string
				switch {
				case r.Intn(100) < pr.badMethodPct:
					for k := 1 + r.Intn(3); k > 0; k-- {
						if r.Intn(2) == 0 {
							ms = append(ms, pick(r, badMethods))
						} else {
							ms = append(ms, pick(r, handleMethods))
						}
					}
					w.Count("bad-methods")
				case r.Intn(8) == 0: // Any
				default:
					ms = append(ms, pick(r, handleMethods))
					if r.Intn(4) == 0 {
						ms = append(ms, pick(r, handleMethods))
					}
				}
				hid++
				tgt := "r"
				if pr.facades {
					tgt = pick(r, facIDs)
					if pr.facadeHeavy && len(facIDs) > 1 && r.Intn(4) != 0 {
						tgt = pick(r, facIDs[1:])
					}
				}
				var mws []string
				if pr.use {
					mws = newMws(2)
				}
				if pr.syntaxOps && tgt == "r" {
					ops = append(ops, []string{"syntax", p})
				}
				ops = append(ops, append([]string{"handle", tgt, p, "h" + itoa(hid)}, append(list(mws...), list(ms...)...)...))
				if len(pool) < 24 {
					pool = append(pool, p)
					stems = append(stems, p)
				}
			}
			observe()
		}
		if !pr.dumpEvery {
			ops = append(ops, []string{"dump"}, []string{"routes"})
		}
		// probes
		nProbe := 6 + r.Intn(14) + pr.nProbes
		for i := 0; i < nProbe; i++ {
			var path string
			switch x := r.Intn(10); {
			case x < 2 && len(pool) > 0:
				wp := pick(r, pool)
				wpath, kv := witness(r, wp)
				ops = append(ops, append([]string{"serve", pick(r, serveMethods), wpath, "w", wp}, list(kv...)...))
				continue
			case x < 6 && len(pool) > 0:
				path = instantiate(r, pick(r, pool), valuePool)
				if r.Intn(4) == 0 {
					path = mutate(r, path)
				}
			case x < 8 && len(pool) > 0:
				path = instantiate(r, pick(r, pool), []string{"5", "abc", "x"}) + pick(r, litPool)
			default:
				if pr.rawPaths {
					path = pick(r, []string{"", "*", "/", "//", "/\x00", "\xff\xfe", "/a/../b", strings.Repeat("/a", 50), "a", "/{id}"})
				} else {
					path = pick(r, litPool) + pick(r, valuePool)
				}
			}
			if pr.asciiOnly {
				path = strings.Map(func(c rune) rune {
					if c > 126 || c == 0xFFFD {
						return 'z'
					}
					return c
				}, path)
			}
			ops = append(ops, []string{"serve", pick(r, serveMethods), path})
		}
		if pr.urls {
			for i := 0; i < 4; i++ {
				var p string
				if len(pool) > 0 && r.Intn(4) != 0 {
					p = pick(r, pool)
				} else {
					p = pick(r, malformed)
				}
				var kv []string
				for _, n := range paramNames {
					k := strings.TrimPrefix(n, "-")
					if strings.Contains(p, "{"+k) || strings.Contains(p, "{-"+k) || r.Intn(8) == 0 {
						if r.Intn(6) != 0 {
							v := pick(r, valuePool)
							if pr.braceValues && r.Intn(5) == 0 {
								v = pick(r, []string{"{id}", "{name}", "{p}", "{q}", "{v}", "{a}", "{b}", "{path}", "{x", "}", "{id:\\d+}"})
							}
							if pr.braceValues && r.Intn(4) == 0 {
								// a value that spells one of the pattern's own tokens: substitution must not look at it again
								var toks []string
								for q := p; ; {
									i := strings.IndexByte(q, '{')
									if i < 0 {
										break
									}
									j := strings.IndexByte(q[i:], '}')
									if j < 0 {
										break
									}
									toks = append(toks, q[i:i+j+1])
									q = q[i+j+1:]
								}
								if len(toks) > 0 {
									v = pick(r, toks)
								}
							}
							kv = append(kv, k, v)
						}
					}
				}
				if r.Intn(6) == 0 {
					kv = nil
				}
				utgt := "r"
				if pr.facadeHeavy && len(facIDs) > 1 && r.Intn(2) == 0 {
					utgt = pick(r, facIDs[1:])
					p = pick(r, []string{"", "/a", "/{id}", "x"})
				}
				ops = append(ops, append([]string{"url", utgt, b2s(r.Intn(2) == 0), p}, list(kv...)...))
			}
		}
		return ops
	}
}

func init() {
	full := rtProfile{malformedPct: 10, removePct: 20, badMethodPct: 10, facades: true, use: true, urls: true,
		rawPaths: true, maxRoutes: 10, literalFanout: true, syntaxOps: true}
	suites["RT"] = Suite{Gen: genRT(full), Exec: execRT}
	suites["C01"] = Suite{Gen: genRT(rtProfile{removePct: 15, rawPaths: true, maxRoutes: 12, literalFanout: true, nProbes: 12}), Exec: execRT}
	suites["C02"] = Suite{Gen: genRT(rtProfile{maxRoutes: 14, literalFanout: true, nProbes: 16, asciiOnly: true}), Exec: execRT}
	suites["C03"] = Suite{Gen: genRT(rtProfile{twinPct: 3, removePct: 40, dumpEvery: true, probeEvery: true, facades: true, maxRoutes: 14,
		literalFanout: true, badMethodPct: 5}), Exec: execRT}
	suites["C04"] = Suite{Gen: genRT(rtProfile{removePct: 40, allowProbes: true, maxRoutes: 12, literalFanout: true, tracePct: 50,
		badMethodPct: 5, facades: true}), Exec: execRT}
	suites["C05"] = Suite{Gen: genRT(rtProfile{malformedPct: 40, removePct: 25, badMethodPct: 20, facades: true, urls: true, rawPaths: true,
		maxRoutes: 10, literalFanout: true, syntaxOps: true, longNames: true}), Exec: execRT}
	suites["C09"] = Suite{Gen: genRT(rtProfile{removePct: 15, facades: true, use: true, maxRoutes: 12, probeEvery: true}), Exec: execRT}
	suites["C10"] = Suite{Gen: genRT(rtProfile{malformedPct: 15, removePct: 10, urls: true, maxRoutes: 8, facades: true, braceValues: true}), Exec: execRT}
	suites["C19"] = Suite{Gen: genRT(rtProfile{removePct: 30, facades: true, use: true, urls: true, maxRoutes: 14, probeEvery: true,
		allowProbes: true, facadeHeavy: true}), Exec: execC19}
	suites["C17"] = Suite{Gen: genRT(rtProfile{malformedPct: 25, removePct: 10, badMethodPct: 45, dumpEvery: true, probeEvery: true,
		allowProbes: true, repeatObs: true, maxRoutes: 9, literalFanout: true, syntaxOps: true, twinPct: 12}), Exec: execRT}
	// C18: see gen2.go (the same profile followed by Trace helper requests)
}
