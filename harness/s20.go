package main

import (
	"fmt"
	"math"
	"math/rand"
	"sort"
	"strconv"

	"github.com/issue9/mux/v9/types"
)

func init() { suites["C20"] = Suite{Gen: genC20, Exec: execC20} }

var c20Values = []string{"", "0", "1", "-1", "+5", "12", "007", "9223372036854775807", "9223372036854775808",
	"-9223372036854775808", "-9223372036854775809", "18446744073709551615", "18446744073709551616",
	"1.5", "-0", "1e3", "1e400", "NaN", "inf", "-Inf", "0x10", "1_000", "true", "false", "T", "t", "TRUE", "True", "F",
	"-", "+", "+0", "--1", "+-1", "-+1", "1-", "٣", "yes", " 1", "1 ", "a\x00b", "\xff\xfe", "{id}", "abc", "3.4028235e38", "4.9e-324", "0.1", "١٢"}

func errText(err error) string {
	if err == nil {
		return ""
	}
	if err == types.ErrParamNotExists() {
		return "ErrParamNotExists"
	}
	return err.Error()
}

func fbits(f float64) string { return fmt.Sprintf("%016x", math.Float64bits(f)) }

func genC20(r *rand.Rand, w *W) [][]string {
	keys := []string{"id", "k", "", "a\x00", "\xff", "long-key-name", "ID", "k2", "k3"}
	vals := append([]string{}, c20Values...)
	for i := 0; i < 3; i++ {
		b := make([]byte, r.Intn(6))
		for j := range b {
			b[j] = byte(r.Intn(256))
		}
		vals = append(vals, string(b), strconv.FormatInt(r.Int63()-r.Int63(), 10))
	}
	var ops [][]string
	steps := 4 + r.Intn(25)
	big := r.Intn(8) == 0
	for s := 0; s < steps; s++ {
		switch x := r.Intn(10); {
		case x < 4:
			if big && r.Intn(2) == 0 { // more than 30 params: Destroy must not pool it
				for i := 0; i < 35; i++ {
					ops = append(ops, []string{"set", "big" + itoa(i), pick(r, vals)})
				}
				w.Count("big-context")
			}
			ops = append(ops, []string{"set", pick(r, keys), pick(r, vals)})
		case x < 5:
			if r.Intn(2) == 0 { // look a key up, delete it, look it up again (and the same around set / reset)
				k := pick(r, keys)
				probe := func() []string {
					return []string{"probe", k, pick(r, vals), strconv.FormatInt(r.Int63()-r.Int63(), 10),
						strconv.FormatUint(r.Uint64(), 10), strconv.FormatBool(r.Intn(2) == 0), fbits(r.NormFloat64())}
				}
				ops = append(ops, []string{"set", k, pick(r, vals)}, probe(), []string{pick(r, []string{"del", "del", "del"}), k}, probe())
				w.Count("probe-del-probe")
				break
			}
			ops = append(ops, []string{"del", pick(r, keys)})
		case x < 6 && r.Intn(3) == 0:
			ops = append(ops, []string{"reset"})
		case x < 6 && r.Intn(2) == 0:
			// mutations that keep the size, with no enumeration in between, framed by two enumerations
			ops = append(ops, []string{"range"}, []string{"qdel", pick(r, keys)}, []string{"qset", pick(r, keys), pick(r, vals)})
			if r.Intn(2) == 0 {
				ops = append(ops, []string{"qdel", pick(r, keys)}, []string{"qset", pick(r, keys), pick(r, vals)})
			}
			ops = append(ops, []string{"range"})
			w.Count("quiet-mutations")
		case x < 7 && r.Intn(2) == 0:
			ops = append(ops, []string{"cycle"})
		default:
			ops = append(ops, []string{"probe", pick(r, keys), pick(r, vals), strconv.FormatInt(r.Int63()-r.Int63(), 10),
				strconv.FormatUint(r.Uint64(), 10), strconv.FormatBool(r.Intn(2) == 0), fbits(r.NormFloat64())})
		}
	}
	for _, o := range ops {
		w.Count("op:" + o[0])
	}
	return ops
}

func execC20(ops [][]string, w *W) {
	// strconv table for every value that can be looked up (Go's own answers)
	seen := map[string]bool{}
	for _, o := range ops {
		if (o[0] == "set" || o[0] == "qset") && !seen[o[2]] {
			v := o[2]
			seen[v] = true
			i, ie := strconv.ParseInt(v, 10, 64)
			u, ue := strconv.ParseUint(v, 10, 64)
			bb, be := strconv.ParseBool(v)
			f, fe := strconv.ParseFloat(v, 64)
			w.H("P", v, strconv.FormatInt(i, 10), errText(ie), strconv.FormatUint(u, 10), errText(ue),
				strconv.FormatBool(bb), errText(be), fbits(f), errText(fe))
		}
	}
	ctx := types.NewContext()
	obsState := func() []string {
		out := []string{itoa(ctx.Count())}
		var kv [][2]string
		ctx.Range(func(k, v string) { kv = append(kv, [2]string{k, v}) })
		sort.Slice(kv, func(i, j int) bool { return kv[i][0] < kv[j][0] })
		for _, p := range kv {
			out = append(out, p[0], p[1])
		}
		return out
	}
	for _, o := range ops {
		w.O(o...)
		switch o[0] {
		case "set":
			ctx.Set(o[1], o[2])
			w.R(obsState()...)
		case "del":
			ctx.Delete(o[1])
			w.R(obsState()...)
		case "reset":
			ctx.Reset()
			w.R(obsState()...)
		case "qset":
			ctx.Set(o[1], o[2])
			w.R(itoa(ctx.Count()))
		case "qdel":
			ctx.Delete(o[1])
			w.R(itoa(ctx.Count()))
		case "range":
			w.R(obsState()...)
		case "cycle":
			ctx.Destroy()
			ctx = types.NewContext()
			w.R(obsState()...)
		case "probe":
			k, ds := o[1], o[2]
			di, _ := strconv.ParseInt(o[3], 10, 64)
			du, _ := strconv.ParseUint(o[4], 10, 64)
			db := o[5] == "true"
			var bits uint64
			fmt.Sscanf(o[6], "%x", &bits)
			df := math.Float64frombits(bits)
			var p types.Params = ctx.Params()
			gv, found := p.Get(k)
			sv, se := p.String(k)
			iv, ie := p.Int(k)
			uv, ue := p.Uint(k)
			bv, be := p.Bool(k)
			fv, fe := p.Float(k)
			w.R(b2s(found), gv, b2s(p.Exists(k)), sv, errText(se), p.MustString(k, ds),
				strconv.FormatInt(iv, 10), errText(ie), strconv.FormatInt(p.MustInt(k, di), 10),
				strconv.FormatUint(uv, 10), errText(ue), strconv.FormatUint(p.MustUint(k, du), 10),
				strconv.FormatBool(bv), errText(be), strconv.FormatBool(p.MustBool(k, db)),
				fbits(fv), errText(fe), fbits(p.MustFloat(k, df)), itoa(p.Count()))
		}
	}
	ctx.Destroy()
}
