package main

import (
	"html"
	"math/rand"
	"net/http/httptest"
	"net/http/httputil"
	"strings"
)

// ---- CORS (C11 / C12)
var corsOrigins = [][]string{nil, {"*"}, {"https://a.com", "https://b.com"}, {"https://a.com", "*"}, {"https://a.com"}}
var corsAllowH = [][]string{nil, {"*"}, {"Content-Type", "X-Token"}, {"X-Token"}, {"Content-Type", "authorization", "X-Token"}, {"x-token", "Content-Type", "X-Request-Id-Token"}}
var corsExposed = [][]string{nil, {"X-Exp", "X-Other"}}
var corsAges = []string{"0", "-1", "50", "3600"}

var reqOrigins = []string{"", "https://a.com", "https://b.com", "https://c.com", "HTTPS://A.COM", "*", "null", "https://a.com/",
	"https://c.com\x1fhttps://a.com", "https://a.com\x1fhttps://c.com"}
var reqACRM = []string{"", "", "GET", "POST", "PUT", "HEAD", "OPTIONS", "junk", "get", "TRACE", "DELETE"}
var reqACRH = []string{"", "", "Content-Type", "content-type", "CONTENT-TYPE, x-token", " Content-Type ,X-Token", "X-Other",
	"Content-Type,,X-Token", ",", "Content-Type, X-Evil", "x-token", "X-Token,Content-Type", " ", "Authorization", "authorization", "AUTHORIZATION, x-token",
	"X-Request-Id", "x-request-id-token", "X-Tok"}
var reqMethods = []string{"GET", "HEAD", "OPTIONS", "OPTIONS", "OPTIONS", "PUT", "POST", "TRACE", "DELETE", "", "BOGUS"}
var reqPaths = []string{"/a", "/a", "/b/5", "/nope", "*", "/b/x/y"}

func genCORS(r *rand.Rand, w *W) [][]string {
	og := pick(r, corsOrigins)
	ah := pick(r, corsAllowH)
	ex := pick(r, corsExposed)
	age := pick(r, corsAges)
	creds := r.Intn(2) == 0
	for _, o := range og {
		if o == "*" {
			creds = false
		}
	}
	trace := r.Intn(4) == 0
	cfg := append([]string{"cfg", b2s(trace), "main", ""}, list()...)
	cfg = append(cfg, "cors")
	cfg = append(cfg, list(og...)...)
	cfg = append(cfg, list(ah...)...)
	cfg = append(cfg, list(ex...)...)
	cfg = append(cfg, age, b2s(creds))
	ops := [][]string{cfg}
	ops = append(ops, append([]string{"handle", "r", "/a", "h1"}, append(list(), list("GET", "POST")...)...))
	ops = append(ops, append([]string{"handle", "r", "/b/{id}", "h2"}, append(list(), list(pick(r, []string{"PUT", "DELETE", "GET"}))...)...))
	if r.Intn(3) == 0 {
		ops = append(ops, append([]string{"remove", "r", "/a"}, list("POST")...))
	}
	w.Count("cors-origins-" + itoa(len(og)))
	hid := 2
	if r.Intn(3) == 0 {
		// a route kept alive as the prefix of a longer one is emptied (explicit methods or all) and registered
		// again with other methods: a preflight for a method it USED to serve must not be granted
		ops = append(ops, append([]string{"handle", "r", "/a/deep", "h3"}, append(list(), list("GET")...)...))
		hid = 3
		if r.Intn(2) == 0 {
			ops = append(ops, append([]string{"remove", "r", "/a"}, list("GET", "POST")...))
		} else {
			ops = append(ops, append([]string{"remove", "r", "/a"}, list()...))
		}
		ops = append(ops, []string{"creq", "OPTIONS", "/a", "https://a.com", "GET", ""})
		hid++
		ops = append(ops, append([]string{"handle", "r", "/a", "h" + itoa(hid)}, append(list(), list(pick(r, []string{"PUT", "PATCH", "POST"}))...)...))
		for _, m := range []string{"GET", "POST", "PUT", "HEAD", "DELETE"} {
			ops = append(ops, []string{"creq", "OPTIONS", "/a", pick(r, []string{"https://a.com", "https://b.com"}), m, ""})
		}
		w.Count("shape-emptied-interior-route")
	}
	for i := 0; i < 40; i++ {
		ops = append(ops, []string{"creq", pick(r, reqMethods), pick(r, reqPaths), pick(r, reqOrigins), pick(r, reqACRM), pick(r, reqACRH)})
		if r.Intn(12) == 0 { // the route's method set changes between preflights
			hid++
			p := pick(r, []string{"/a", "/b/{id}"})
			if r.Intn(2) == 0 {
				ops = append(ops, append([]string{"handle", "r", p, "h" + itoa(hid)}, append(list(), list(pick(r, []string{"PUT", "DELETE", "PATCH", "POST", "GET"}))...)...))
			} else {
				ops = append(ops, append([]string{"remove", "r", p}, list(pick(r, []string{"PUT", "DELETE", "POST", "GET"}))...))
			}
			ops = append(ops, []string{"creq", "OPTIONS", "/a", "https://a.com", pick(r, []string{"GET", "PUT", "POST", "DELETE"}), ""},
				[]string{"creq", "OPTIONS", "/b/5", "https://a.com", pick(r, []string{"GET", "PUT", "POST", "DELETE"}), ""})
		}
	}
	return ops
}

// every combination of the request classes for one configuration (thorough tier: -n selects configurations)
func genCORSExhaustive(r *rand.Rand, w *W) [][]string {
	ops := genCORS(r, w)[:3]
	for _, m := range []string{"GET", "HEAD", "OPTIONS", "PUT", "TRACE"} {
		for _, p := range []string{"/a", "/nope", "*"} {
			for _, o := range reqOrigins {
				for _, am := range []string{"", "GET", "PUT", "HEAD", "OPTIONS", "junk"} {
					for _, ahh := range []string{"", "Content-Type", "content-type", "CONTENT-TYPE, x-token", "X-Other", "Content-Type,,X-Token"} {
						ops = append(ops, []string{"creq", m, p, o, am, ahh})
					}
				}
			}
		}
	}
	return ops
}

// ---- HEAD / GET scripts (C08)
var hdrKeys = []string{"X-A", "X-B", "Content-Type", "Content-Length", "Etag"}

func genScript(r *rand.Rand) []string {
	var evs []string
	n := r.Intn(7)
	for i := 0; i < n; i++ {
		switch r.Intn(8) {
		case 0, 1:
			evs = append(evs, "S", pick(r, hdrKeys), pick(r, []string{"1", "x", "text/plain", "7"}))
		case 2:
			evs = append(evs, "A", pick(r, hdrKeys), pick(r, []string{"2", "y"}))
		case 3:
			evs = append(evs, "D", pick(r, hdrKeys), "-")
		case 4:
			evs = append(evs, "H", pick(r, []string{"200", "201", "404", "204"}), "-")
		default:
			evs = append(evs, "W", pick(r, []string{"0", "1", "2", "1000", "13"}), "-")
		}
	}
	return evs
}

func genC08(r *rand.Rand, w *W) [][]string {
	trace := r.Intn(5) == 0
	ops := [][]string{append([]string{"cfg", b2s(trace), "main", ""}, list()...)}
	pats := []string{"/a", "/b/{id}", "/a/c"}
	hid := 0
	probe := func() {
		for _, p := range pats {
			path := strings.Replace(p, "{id}", "5", 1)
			ops = append(ops, []string{"serve", "HEAD", path}, []string{"serve", "GET", path}, []string{"serve", "OPTIONS", path})
			evs := genScript(r)
			ops = append(ops, append([]string{"script", path}, list(evs...)...))
		}
	}
	if r.Intn(4) == 0 {
		// an interior route emptied by an explicit method list and registered again
		ms := pick(r, [][]string{{"GET"}, {"POST", "GET"}, {"PUT"}})
		hid++
		ops = append(ops, append([]string{"handle", "r", "/a", "h" + itoa(hid)}, append(list(), list(ms...)...)...))
		hid++
		ops = append(ops, append([]string{"handle", "r", "/a/c", "h" + itoa(hid)}, append(list(), list("GET")...)...))
		ops = append(ops, append([]string{"remove", "r", "/a"}, list(ms...)...))
		probe()
		hid++
		ops = append(ops, append([]string{"handle", "r", "/a", "h" + itoa(hid)}, append(list(), list(pick(r, []string{"GET", "POST"}))...)...))
		probe()
		w.Count("shape-emptied-interior-route")
	}
	n := 2 + r.Intn(6)
	for i := 0; i < n; i++ {
		p := pick(r, pats)
		switch r.Intn(6) {
		case 0, 1:
			hid++
			ops = append(ops, append([]string{"handle", "r", p, "h" + itoa(hid)}, append(list(), list("GET")...)...))
		case 2:
			hid++
			var ms []string
			for k := 1 + r.Intn(2); k > 0; k-- {
				ms = append(ms, pick(r, []string{"GET", "POST", "HEAD", "OPTIONS", "TRACE", "BOGUS", "PUT"}))
			}
			ops = append(ops, append([]string{"handle", "r", p, "h" + itoa(hid)}, append(list(), list(ms...)...)...))
		case 3:
			ops = append(ops, append([]string{"remove", "r", p}, list(pick(r, []string{"GET", "HEAD", "OPTIONS", "POST", "", "get", "head", "options", "Get", "post"}))...))
		case 4:
			ops = append(ops, append([]string{"remove", "r", p}, list(pick(r, []string{"GET", "POST", "get"}), pick(r, []string{"HEAD", "OPTIONS", "PUT", "head", "options"}))...))
		default:
			ops = append(ops, append([]string{"remove", "r", p}, list()...))
		}
		probe()
	}
	return ops
}

// ---- the bundled TRACE helper (C18)
func genTraceHelper(r *rand.Rand, w *W) [][]string {
	ops := genRT(rtProfile{removePct: 20, tracePct: 70, allowProbes: true, use: true, maxRoutes: 6, rawPaths: true})(r, w)
	for i := 0; i < 6; i++ {
		method := pick(r, []string{"TRACE", "GET", "POST"})
		path := pick(r, []string{"/", "/a?x=<y>", "/p/&amp;", "/\"q\"", "/plain"})
		body := pick(r, []string{"", "<script>alert(1)</script>", "a&b", "plain body", "'quoted'", "{\"k\": \"v\"}", "it's"})
		hk, hv := "", ""
		if r.Intn(2) == 0 {
			hk, hv = "X-Test", pick(r, []string{"<b>", "1", "a&b", "W/\"etag\"", "'v'"})
		}
		withBody := r.Intn(2) == 0
		// what the helper must reproduce: the HTML-escaped dump of the request
		var rd *strings.Reader
		req := httptest.NewRequest(method, "http://example.com"+path, nil)
		if body != "" {
			rd = strings.NewReader(body)
			req = httptest.NewRequest(method, "http://example.com"+path, rd)
		}
		if hk != "" {
			req.Header.Set(hk, hv)
		}
		text, err := httputil.DumpRequest(req, withBody)
		if err != nil {
			continue
		}
		ops = append(ops, []string{"tracehelper", b2s(withBody), itoa(len(html.EscapeString(string(text)))), method, path, body, hk, hv, html.EscapeString(string(text))})
	}
	return ops
}

func init() {
	suites["C08"] = Suite{Gen: genC08, Exec: execRT}
	suites["C11"] = Suite{Gen: genCORS, Exec: execRT}
	suites["C12"] = Suite{Gen: genCORS, Exec: execRT}
	suites["C11x"] = Suite{Gen: genCORSExhaustive, Exec: execRT}
	suites["C18"] = Suite{Gen: genTraceHelper, Exec: execRT}
}
