// Harness: generates cases for one suite, runs them on the implementation built from
// /repo's working tree (replace directive, -tags verif) and writes cases + observations.
package main

import (
	"encoding/json"
	"flag"
	"fmt"
	"math/rand"
	"os"
)

// A suite generates programs (operation lines) and executes a program on the
// implementation, writing header (H), operation (O) and observation (R) lines.
type Suite struct {
	Gen  func(r *rand.Rand, w *W) [][]string
	Exec func(ops [][]string, w *W)
}

var suites = map[string]Suite{}

func main() {
	suite := flag.String("suite", "", "suite id (C01..C20)")
	seed := flag.Int64("seed", 1, "PRNG seed")
	n := flag.Int("n", 100, "number of generated cases")
	out := flag.String("out", "cases.txt", "output file")
	stats := flag.String("stats", "", "generator statistics (JSON)")
	replay := flag.String("replay", "", "program file to re-execute instead of generating")
	race := flag.String("race", "", "stress scenario (c06 | c07): run it for -seconds and exit")
	seconds := flag.Float64("seconds", 3, "duration of a stress scenario")
	flag.Parse()
	if *race != "" {
		runRace(*race, *seconds, *seed)
	}
	su, ok := suites[*suite]
	if !ok {
		fmt.Fprintln(os.Stderr, "unknown suite", *suite)
		os.Exit(2)
	}
	w := newW(*out)
	if *replay != "" {
		for i, ops := range readPrograms(*replay) {
			w.Case("replay" + itoa(i))
			su.Exec(ops, w)
			w.End()
		}
	} else {
		r := rand.New(rand.NewSource(*seed))
		for c := 0; c < *n; c++ {
			ops := su.Gen(r, w)
			w.Case(itoa(c))
			su.Exec(ops, w)
			w.End()
		}
	}
	w.Close()
	if *stats != "" {
		b, _ := json.Marshal(map[string]any{"cases": w.cases, "ops": w.ops, "dist": w.dist})
		os.WriteFile(*stats, b, 0o644)
	}
}
