package main

import (
	"fmt"
	"io"
	"net/http"
	"net/http/httptest"
	"net/url"
	"runtime"
	"sort"
	"strings"

	mux "github.com/issue9/mux/v9"
	"github.com/issue9/mux/v9/types"
)

// H is the handler type T the harness instantiates routers with: a symbolic term.
type H struct {
	term   string
	core   string     // U, NF, OP, NA, TR, GNF
	node   types.Node // node captured by the OPTIONS / 405 builders
	id     string     // handler id of user handlers
	layers []string   // middleware ids around the core, outermost first
}

func (h *H) coreID() string {
	if h.core == "U" {
		return "U:" + h.id
	}
	return h.core
}

type mwT struct {
	id  string
	log *[]string // one entry per factory invocation
}

func (m mwT) Middleware(next *H, method, pattern, router string) *H {
	t := "W(" + m.id + "|" + method + "|" + pattern + "|" + router + "|" + next.term + ")"
	if m.log != nil {
		*m.log = append(*m.log, t)
	}
	return &H{term: t, core: next.core, node: next.node, id: next.id, layers: append([]string{m.id}, next.layers...)}
}

// what the CallFunc saw during the last request
type seen struct {
	called  bool
	h       *H
	node    types.Node
	params  []string
	path    string
	rname   string
	capture string
}

type rtEnv struct {
	r     *mux.Router[*H]
	facs  map[string]any
	last  seen
	mwlog []string
	shared map[string][]types.Middleware[*H] // middleware arrays several calls take prefixes of
	// behaviour executed by the CallFunc after recording (used by other suites)
	behave func(w http.ResponseWriter, req *http.Request, h *H)
}

func classify(v any) string {
	if v == nil {
		return ""
	}
	if _, ok := v.(runtime.Error); ok {
		return "runtime"
	}
	if _, ok := v.(error); ok {
		return "error"
	}
	return "other"
}

// guard runs f and classifies a panic.
func guard(f func()) (cls string) {
	defer func() {
		if v := recover(); v != nil {
			cls = classify(v)
		}
	}()
	f()
	return ""
}

func icptFunc(kind string) mux.InterceptorFunc {
	switch kind {
	case "len2":
		return func(s string) bool { return len(s) >= 2 }
	case "all":
		return func(string) bool { return true }
	case "none":
		return func(string) bool { return false }
	case "even":
		return func(s string) bool { return len(s)%2 == 0 }
	case "nodot":
		return func(s string) bool { return len(s) > 0 && !strings.Contains(s, ".") }
	}
	return nil
}

func (e *rtEnv) call(w http.ResponseWriter, req *http.Request, route types.Route, h *H) {
	e.last.called = true
	e.last.h = h
	e.last.node = route.Node()
	e.last.rname = route.RouterName()
	e.last.path = req.URL.Path
	var kv [][2]string
	if p := route.Params(); p != nil {
		p.Range(func(k, v string) { kv = append(kv, [2]string{k, v}) })
	}
	sort.Slice(kv, func(i, j int) bool { return kv[i][0] < kv[j][0] })
	e.last.params = nil
	for _, p := range kv {
		e.last.params = append(e.last.params, p[0], p[1])
	}
	if h != nil && h.node != nil && (h.core == "OP" || h.core == "NA") {
		e.last.capture = h.node.AllowHeader()
	} else {
		e.last.capture = ""
	}
	if e.behave != nil {
		e.behave(w, req, h)
	}
}

func rtOptions(cfg []string) (name string, opts []mux.Option) {
	// cfg <trace> <name> <domain> <n> rule kind …
	name = cfg[2]
	if cfg[1] == "1" {
		opts = append(opts, mux.WithTrace(&H{term: "TR", core: "TR"}))
	}
	if cfg[3] != "" {
		opts = append(opts, mux.WithURLDomain(cfg[3]))
	}
	ic, rest := takeList(cfg[4:])
	if len(rest) > 0 && rest[0] == "cors" {
		og, r2 := takeList(rest[1:])
		ah, r3 := takeList(r2)
		ex, r4 := takeList(r3)
		age := 0
		fmt.Sscan(r4[0], &age)
		opts = append(opts, mux.WithCORS(og, ah, ex, age, r4[1] == "1"))
	}
	for i := 0; i+1 < len(ic); i += 2 {
		switch ic[i+1] {
		case "any":
			opts = append(opts, mux.WithAnyInterceptor(ic[i]))
		case "digit":
			opts = append(opts, mux.WithDigitInterceptor(ic[i]))
		case "word":
			opts = append(opts, mux.WithWordInterceptor(ic[i]))
		default:
			opts = append(opts, mux.WithInterceptor(icptFunc(ic[i+1]), ic[i]))
		}
	}
	return
}

func newRtEnv(cfg []string, extra ...mux.Option) *rtEnv {
	e := &rtEnv{facs: map[string]any{}}
	name, opts := rtOptions(cfg)
	opts = append(opts, extra...)
	e.r = mux.NewRouter[*H](name, e.call, &H{term: "NF", core: "NF"},
		func(n types.Node) *H { return &H{term: "NA", core: "NA", node: n} },
		func(n types.Node) *H { return &H{term: "OP", core: "OP", node: n} }, opts...)
	return e
}

func takeList(f []string) (items, rest []string) {
	if len(f) == 0 {
		return nil, nil
	}
	n := 0
	fmt.Sscan(f[0], &n)
	if n > len(f)-1 {
		n = len(f) - 1
	}
	return f[1 : 1+n], f[1+n:]
}

func (e *rtEnv) mws(ids []string) []types.Middleware[*H] {
	// ids "S<k>.0" … "S<k>.<n-1>" name the first n elements of one shared array of four middlewares: the call
	// gets a slice of that array (spare capacity behind it, as in `common[:n]...`), so a callee that appends
	// to its argument in place would overwrite what a later call passes
	if len(ids) > 0 && len(ids) <= 4 && strings.HasPrefix(ids[0], "S") && strings.HasSuffix(ids[0], ".0") {
		grp := strings.TrimSuffix(ids[0], ".0")
		ok := true
		for i, id := range ids {
			if id != grp+"."+itoa(i) {
				ok = false
			}
		}
		if ok {
			if e.shared == nil {
				e.shared = map[string][]types.Middleware[*H]{}
			}
			arr, has := e.shared[grp]
			if !has {
				arr = make([]types.Middleware[*H], 4)
				for i := range arr {
					arr[i] = mwT{id: grp + "." + itoa(i), log: &e.mwlog}
				}
				e.shared[grp] = arr
			}
			return arr[:len(ids)]
		}
	}
	out := make([]types.Middleware[*H], 0, len(ids))
	for _, id := range ids {
		out = append(out, mwT{id: id, log: &e.mwlog})
	}
	return out
}

func outcome(cls string) []string {
	switch cls {
	case "":
		return []string{"ok"}
	case "error":
		return []string{"err"}
	default:
		return []string{"panic", cls}
	}
}

func paramsMap(kv []string) map[string]string {
	if len(kv) == 0 {
		return nil
	}
	m := map[string]string{}
	for i := 0; i+1 < len(kv); i += 2 {
		m[kv[i]] = kv[i+1]
	}
	return m
}

func urlOutcome(f func() (string, error)) []string {
	var u string
	var err error
	cls := guard(func() { u, err = f() })
	if cls != "" {
		return []string{"panic", cls}
	}
	if err != nil {
		return []string{"err"}
	}
	return []string{"ok", u}
}

// serve runs one request through h and returns the observation fields.
func (e *rtEnv) serve(h http.Handler, method, path, host string, hdr http.Header) ([]string, *httptest.ResponseRecorder) {
	req := &http.Request{Method: method, URL: &url.URL{Path: path}, Header: hdr, Host: host, Proto: "HTTP/1.1", ProtoMajor: 1, ProtoMinor: 1}
	if len(path)%2 == 0 && strings.HasPrefix(path, "/") {
		// what net/http hands over when the client escaped more than it had to: Path is the decoded path, RawPath
		// the spelling on the wire (here: every byte but '/' percent-encoded).  Dispatch is defined on Path.
		var sb strings.Builder
		for i := 0; i < len(path); i++ {
			if path[i] == '/' {
				sb.WriteByte('/')
			} else {
				fmt.Fprintf(&sb, "%%%02X", path[i])
			}
		}
		req.URL.RawPath = sb.String()
	}
	if req.Header == nil {
		req.Header = http.Header{}
	}
	w := httptest.NewRecorder()
	e.last = seen{}
	cls := guard(func() { h.ServeHTTP(w, req) })
	if cls != "" {
		return []string{"panic", cls}, w
	}
	if !e.last.called || e.last.h == nil {
		return []string{"panic", "nil-handler"}, w
	}
	out := []string{"served", e.last.h.term, e.last.h.coreID()}
	if n := e.last.node; n != nil {
		out = append(out, "1", n.Pattern(), strings.Join(n.Methods(), ","), n.AllowHeader())
	} else {
		out = append(out, "0", "", "", "")
	}
	out = append(out, e.last.capture)
	out = append(out, e.last.params...)
	return out, w
}

// execRtOp executes one router-program operation and returns the observation.
func (e *rtEnv) execRtOp(o []string) []string {
	switch o[0] {
	case "handle":
		tgt, pattern, hid := o[1], o[2], o[3]
		mwIDs, rest := takeList(o[4:])
		methods, _ := takeList(rest)
		h := &H{term: "U(" + hid + ")", core: "U", id: hid}
		return outcome(guard(func() {
			switch t := e.target(tgt).(type) {
			case *mux.Router[*H]:
				t.Handle(pattern, h, e.mws(mwIDs), methods...)
			case *mux.Prefix[*H]:
				t.Handle(pattern, h, e.mws(mwIDs), methods...)
			case *mux.Resource[*H]:
				t.Handle(h, e.mws(mwIDs), methods...)
			}
		}))
	case "remove":
		methods, _ := takeList(o[3:])
		return outcome(guard(func() {
			switch t := e.target(o[1]).(type) {
			case *mux.Router[*H]:
				t.Remove(o[2], methods...)
			case *mux.Prefix[*H]:
				t.Remove(o[2], methods...)
			case *mux.Resource[*H]:
				t.Remove(methods...)
			}
		}))
	case "clean":
		return outcome(guard(func() {
			switch t := e.target(o[1]).(type) {
			case *mux.Router[*H]:
				t.Clean()
			case *mux.Prefix[*H]:
				t.Clean()
			case *mux.Resource[*H]:
				t.Clean()
			}
		}))
	case "use":
		ids, _ := takeList(o[1:])
		return outcome(guard(func() { e.r.Use(e.mws(ids)...) }))
	case "prefix", "resource":
		ids, _ := takeList(o[4:])
		return outcome(guard(func() {
			switch t := e.target(o[2]).(type) {
			case *mux.Router[*H]:
				if o[0] == "prefix" {
					e.facs[o[1]] = t.Prefix(o[3], e.mws(ids)...)
				} else {
					e.facs[o[1]] = t.Resource(o[3], e.mws(ids)...)
				}
			case *mux.Prefix[*H]:
				if o[0] == "prefix" {
					e.facs[o[1]] = t.Prefix(o[3], e.mws(ids)...)
				} else {
					e.facs[o[1]] = t.Resource(o[3], e.mws(ids)...)
				}
			}
		}))
	case "serve":
		obs, _ := e.serve(e.r, o[1], o[2], "", nil)
		return obs
	case "routes":
		var out []string
		cls := guard(func() {
			rs := e.r.Routes()
			keys := make([]string, 0, len(rs))
			for k := range rs {
				keys = append(keys, k)
			}
			sort.Strings(keys)
			for _, k := range keys {
				out = append(out, k, strings.Join(rs[k], ","))
			}
		})
		if cls != "" {
			return []string{"panic", cls}
		}
		return out
	case "dump":
		return mux.VerifDump(e.r)
	case "url":
		kv, _ := takeList(o[4:])
		strict := o[2] == "1"
		return urlOutcome(func() (string, error) {
			switch t := e.target(o[1]).(type) {
			case *mux.Prefix[*H]:
				return t.URL(strict, o[3], paramsMap(kv))
			case *mux.Resource[*H]:
				return t.URL(strict, paramsMap(kv))
			default:
				return e.r.URL(strict, o[3], paramsMap(kv))
			}
		})
	case "creq":
		hdr := http.Header{}
		if o[3] != "" {
			for _, v := range strings.Split(o[3], "\x1f") { // several Origin lines
				hdr.Add("Origin", v)
			}
		}
		if o[4] != "" {
			hdr.Set("Access-Control-Request-Method", o[4])
		}
		if o[5] != "" {
			hdr.Set("Access-Control-Request-Headers", o[5])
		}
		obs, w := e.serve(e.r, o[1], o[2], "", hdr)
		if obs[0] != "served" {
			return obs
		}
		out := []string{obs[2], obs[4]}
		for _, k := range []string{"Access-Control-Allow-Origin", "Access-Control-Allow-Credentials", "Access-Control-Allow-Methods",
			"Access-Control-Allow-Headers", "Access-Control-Expose-Headers", "Access-Control-Max-Age", "Vary"} {
			out = append(out, hdrField(w.Header(), k))
		}
		return out
	case "script":
		evs, _ := takeList(o[2:])
		var out []string
		for _, m := range []string{"GET", "HEAD"} {
			rw := newRecW()
			e.behave = func(w http.ResponseWriter, _ *http.Request, _ *H) { runScript(w, evs) }
			req := &http.Request{Method: m, URL: &url.URL{Path: o[1]}, Header: http.Header{}, Proto: "HTTP/1.1", ProtoMajor: 1, ProtoMinor: 1}
			e.last = seen{}
			cls := guard(func() { e.r.ServeHTTP(rw, req) })
			e.behave = nil
			if cls != "" || !e.last.called || e.last.h == nil {
				out = append(out, "panic")
				continue
			}
			rw.finish()
			out = append(out, e.last.h.coreID())
			out = append(out, rw.obs()...)
		}
		return out
	case "tracehelper":
		// tracehelper <withbody> <escaped-len> method path body hk hv <escaped dump>
		rw := newRecW()
		rw.keep = true
		var body io.Reader
		if o[5] != "" {
			body = strings.NewReader(o[5])
		}
		req := httptest.NewRequest(o[3], "http://example.com"+o[4], body)
		if o[6] != "" {
			req.Header.Set(o[6], o[7])
		}
		cls := guard(func() { mux.Trace(rw, req, o[1] == "1") })
		if cls != "" {
			return []string{"panic", cls}
		}
		rw.finish()
		return append(rw.obs(), "body", string(rw.bytes))
	case "syntax":
		var err error
		cls := guard(func() { err = mux.CheckSyntax(o[1]) })
		if cls != "" {
			return []string{"panic", cls}
		}
		if err != nil {
			return []string{"err"}
		}
		return []string{"ok"}
	case "muxurl":
		kv, _ := takeList(o[2:])
		return urlOutcome(func() (string, error) { return mux.URL(o[1], paramsMap(kv)) })
	}
	return []string{"unknown-op"}
}

func (e *rtEnv) target(id string) any {
	if id == "r" {
		return e.r
	}
	if f, ok := e.facs[id]; ok {
		return f
	}
	return e.r
}

// execRT: first op must be cfg (written as header), the rest are router-program operations.
func execRT(ops [][]string, w *W) {
	if len(ops) == 0 || ops[0][0] != "cfg" {
		panic("RT program must start with cfg")
	}
	w.H(ops[0]...)
	w.O(ops[0]...) // keep the cfg in the program for replays
	w.R("unknown-op")
	e := newRtEnv(ops[0])
	for _, o := range ops[1:] {
		w.O(o...)
		w.R(e.execRtOp(o)...)
	}
}

func list(items ...string) []string { return append([]string{itoa(len(items))}, items...) }

func hdrField(h http.Header, k string) string {
	vs := h.Values(k)
	if len(vs) == 0 {
		return "-"
	}
	return "=" + strings.Join(vs, "\x1f")
}

// recW is a ResponseWriter that follows the documented contract and nothing else (no content
// sniffing): the first WriteHeader or Write freezes the status and a copy of the headers.
type recW struct {
	h      http.Header
	status int
	sent   http.Header
	body   int
	keep   bool   // record the body bytes too (Trace helper)
	bytes  []byte
}

func newRecW() *recW { return &recW{h: http.Header{}} }

func (w *recW) Header() http.Header { return w.h }
func (w *recW) WriteHeader(c int) {
	if w.sent == nil {
		w.status, w.sent = c, w.h.Clone()
		if w.sent == nil {
			w.sent = http.Header{}
		}
	}
}
func (w *recW) Write(b []byte) (int, error) {
	w.WriteHeader(200)
	w.body += len(b)
	if w.keep {
		w.bytes = append(w.bytes, b...)
	}
	return len(b), nil
}
func (w *recW) finish() { w.WriteHeader(200) }
func (w *recW) obs() []string {
	keys := make([]string, 0, len(w.sent))
	for k, v := range w.sent {
		if len(v) > 0 {
			keys = append(keys, k)
		}
	}
	sort.Strings(keys)
	out := []string{itoa(w.status), itoa(w.body), itoa(len(keys))}
	for _, k := range keys {
		out = append(out, k, strings.Join(w.sent[k], "\x1f"))
	}
	return out
}

func runScript(w http.ResponseWriter, evs []string) {
	for i := 0; i+2 < len(evs); i += 3 {
		switch evs[i] {
		case "S":
			w.Header().Set(evs[i+1], evs[i+2])
		case "A":
			w.Header().Add(evs[i+1], evs[i+2])
		case "D":
			w.Header().Del(evs[i+1])
		case "H":
			c := 0
			fmt.Sscan(evs[i+1], &c)
			w.WriteHeader(c)
		case "W":
			n := 0
			fmt.Sscan(evs[i+1], &n)
			w.Write(make([]byte, n))
		}
	}
}

// execC19 runs the program as written (through Prefix/Resource objects) and a second time
// desugared into plain Router calls on a fresh router, and reports whether every
// observation of the two runs is identical (the model predicts "1").
func execC19(ops [][]string, w *W) {
	if len(ops) == 0 || ops[0][0] != "cfg" {
		panic("RT program must start with cfg")
	}
	w.H(ops[0]...)
	w.O(ops[0]...)
	w.R("unknown-op")
	e := newRtEnv(ops[0])
	e2 := newRtEnv(ops[0])
	type fac struct {
		prefix  bool
		pattern string
		mws     []string
	}
	facs := map[string]fac{}
	firstDiff := -1
	for i, o := range ops[1:] {
		obs := e.execRtOp(o)
		w.O(o...)
		w.R(obs...)
		// ---- desugared twin
		var o2 []string
		switch o[0] {
		case "prefix", "resource":
			ids, _ := takeList(o[4:])
			parent, hasParent := facs[o[2]]
			if hasParent && !parent.prefix {
				continue // a Resource has no Prefix/Resource methods: the call is ignored
			}
			f := fac{prefix: o[0] == "prefix", pattern: o[3], mws: ids}
			if hasParent {
				f.pattern = parent.pattern + o[3]
				f.mws = append(append([]string{}, ids...), parent.mws...)
			}
			facs[o[1]] = f
			continue
		case "handle":
			if f, ok := facs[o[1]]; ok {
				mwIDs, rest := takeList(o[4:])
				p := f.pattern
				if f.prefix {
					p += o[2]
				}
				o2 = append([]string{"handle", "r", p, o[3]}, append(list(append(append([]string{}, mwIDs...), f.mws...)...), rest...)...)
			}
		case "remove":
			if f, ok := facs[o[1]]; ok {
				p := f.pattern
				if f.prefix {
					p += o[2]
				}
				o2 = append([]string{"remove", "r", p}, o[3:]...)
			}
		case "clean":
			if f, ok := facs[o[1]]; ok {
				if f.prefix {
					o2 = []string{"cleanprefix", f.pattern}
				} else {
					o2 = append([]string{"remove", "r", f.pattern}, list()...)
				}
			}
		case "url":
			if f, ok := facs[o[1]]; ok {
				p := f.pattern
				if f.prefix {
					p += o[3]
				}
				o2 = append([]string{"url", "r", o[2], p}, o[4:]...)
			}
		}
		if o2 == nil {
			o2 = o
		}
		var obs2 []string
		if o2[0] == "cleanprefix" {
			// Prefix.Clean == Remove of every route whose pattern starts with the prefix
			obs2 = outcome(guard(func() {
				for pat := range e2.r.Routes() {
					if pat != "*" && strings.HasPrefix(pat, o2[1]) {
						e2.r.Remove(pat)
					}
				}
			}))
		} else {
			obs2 = e2.execRtOp(o2)
		}
		if firstDiff < 0 && o[0] != "dump" && strings.Join(obs, "\x00") != strings.Join(obs2, "\x00") {
			firstDiff = i + 1
		}
	}
	w.O("c19eq")
	if firstDiff < 0 {
		w.R("1")
	} else {
		w.R("0", itoa(firstDiff))
	}
}
