package main

import (
	"errors"
	"fmt"
	"math/rand"
	"mime"
	"net/http"
	"net/http/httptest"
	"net/url"
	"sort"
	"strings"

	mux "github.com/issue9/mux/v9"
	"github.com/issue9/mux/v9/types"
)

type tval struct{ X string }

func decodePanic(v string) any {
	switch {
	case strings.HasPrefix(v, "s:"):
		return v[2:]
	case strings.HasPrefix(v, "e:"):
		return errors.New(v[2:])
	case strings.HasPrefix(v, "i:"):
		n := 0
		fmt.Sscan(v[2:], &n)
		return n
	case v == "a:abort":
		return http.ErrAbortHandler
	default:
		return tval{X: v[2:]}
	}
}

func encodePanic(v any) string {
	switch x := v.(type) {
	case string:
		return "s:" + x
	case tval:
		return "t:" + x.X
	case int:
		return "i:" + itoa(x)
	case error:
		if x == http.ErrAbortHandler {
			return "a:abort"
		}
		if _, ok := v.(interface{ RuntimeError() }); ok {
			return "runtime:" + x.Error()
		}
		return "e:" + x.Error()
	}
	return fmt.Sprintf("?:%v", v)
}

type grEnv struct {
	g         *mux.Group[*H]
	solo      map[string]*mux.Router[*H]
	last      seen
	raises    map[string]string
	recovered []string
	mwlog     []string
	// a second group built from the same option array (see newGroup)
	lookupFault   bool
	twin          *mux.Group[*H]
	twinN         int
	twinRecovered int
}

func (e *grEnv) run(h *H, i int) {
	if i == len(h.layers) {
		if v, ok := e.raises[h.coreID()+"|core"]; ok {
			panic(decodePanic(v))
		}
		return
	}
	if v, ok := e.raises[h.layers[i]+"|before"]; ok {
		panic(decodePanic(v))
	}
	e.run(h, i+1)
	if v, ok := e.raises[h.layers[i]+"|after"]; ok {
		panic(decodePanic(v))
	}
}

func (e *grEnv) call(w http.ResponseWriter, req *http.Request, route types.Route, h *H) {
	e.last = seen{called: true, h: h, node: route.Node(), rname: route.RouterName(), path: req.URL.Path}
	var kv [][2]string
	if p := route.Params(); p != nil {
		p.Range(func(k, v string) { kv = append(kv, [2]string{k, v}) })
	}
	sort.Slice(kv, func(i, j int) bool { return kv[i][0] < kv[j][0] })
	for _, p := range kv {
		e.last.params = append(e.last.params, p[0], p[1])
	}
	if h != nil {
		e.run(h, 0)
	}
}

func (e *grEnv) recoverOpt() mux.Option {
	return mux.WithRecovery(func(w http.ResponseWriter, msg any) {
		e.recovered = append(e.recovered, encodePanic(msg))
		w.Write([]byte("recovered")) // 9 bytes: must not reach the client of a HEAD request
	})
}

func (e *grEnv) mws(ids []string) []types.Middleware[*H] {
	out := make([]types.Middleware[*H], 0, len(ids))
	for _, id := range ids {
		out = append(out, mwT{id: id, log: &e.mwlog})
	}
	return out
}

func parseMatcher(f []string) (mux.Matcher, []string) {
	switch f[0] {
	case "any":
		return nil, f[1:]
	case "hosts":
		ds, rest := takeList(f[1:])
		return mux.NewHosts(false, ds...), rest
	case "pv":
		vs, rest := takeList(f[2:])
		return mux.NewPathVersion(f[1], append([]string{}, vs...)...), rest
	case "hv":
		vs, rest := takeList(f[3:])
		return mux.NewHeaderVersion(f[1], f[2], func(error) {}, vs...), rest
	case "and", "or":
		n := 0
		fmt.Sscan(f[1], &n)
		rest := f[2:]
		var ms []mux.Matcher
		for i := 0; i < n; i++ {
			var m mux.Matcher
			m, rest = parseMatcher(rest)
			if m == nil {
				m = mux.MatcherFunc(func(*http.Request, *types.Context) bool { return true })
			}
			ms = append(ms, m)
		}
		if f[0] == "and" {
			return mux.AndMatcher(ms...), rest
		}
		return mux.OrMatcher(ms...), rest
	}
	panic("bad matcher spec " + f[0])
}

func (e *grEnv) newGroup(recover bool) {
	// The options are handed over as prefixes of ONE array with spare capacity: the group under test gets
	// backing[:1], a twin group gets backing[:2] whose second option is a recovery function of its own.
	// A callee that appends to the slice it was given (instead of copying) overwrites the twin's option.
	backing := make([]mux.Option, 2, 6)
	backing[0] = mux.WithRecovery(nil) // an option without effect
	if recover {
		backing[0] = e.recoverOpt()
	}
	backing[1] = mux.WithRecovery(func(w http.ResponseWriter, msg any) { e.twinRecovered++ })
	nf := &H{term: "GNF", core: "GNF"}
	na := func(n types.Node) *H { return &H{term: "NA", core: "NA", node: n} }
	op := func(n types.Node) *H { return &H{term: "OP", core: "OP", node: n} }
	e.g = mux.NewGroup[*H](e.call, nf, na, op, backing[:1]...)
	e.twin = mux.NewGroup[*H](func(http.ResponseWriter, *http.Request, types.Route, *H) { panic("twin-boom") }, nf, na, op, backing[:2]...)
	e.twinN = 0
}

// twinProbe: a router created NOW by the twin group must still contain a panic with the twin's recovery function.
func (e *grEnv) twinProbe() bool {
	e.twinN++
	name := "twin" + itoa(e.twinN)
	ok := true
	func() {
		defer func() {
			if recover() != nil {
				ok = false
			}
		}()
		rt := e.twin.New(name, nil)
		rt.Handle("/boom", &H{term: "B", core: "B"}, nil, http.MethodGet)
		before := e.twinRecovered
		e.twin.ServeHTTP(httptest.NewRecorder(), httptest.NewRequest(http.MethodGet, "http://t/boom", nil))
		if e.twinRecovered != before+1 {
			ok = false
		}
	}()
	e.twin.Remove(name)
	return ok
}

func (e *grEnv) router(name string) (rt *mux.Router[*H]) {
	if r, ok := e.solo[name]; ok {
		return r
	}
	defer func() { // a fault inside Group.Router is an observation, not the end of the run
		if recover() != nil {
			rt, e.lookupFault = nil, true
		}
	}()
	return e.g.Router(name)
}

func (e *grEnv) observe(cls string, recVal any, body int) []string {
	if cls != "" && !e.last.called {
		return []string{"panic", cls}
	}
	if !e.last.called || e.last.h == nil {
		return []string{"panic", "nil-handler"}
	}
	h := e.last.h
	esc := "-"
	if cls != "" {
		esc = "=" + encodePanic(recVal)
	}
	pat := ""
	if e.last.node != nil {
		pat = e.last.node.Pattern()
	}
	out := []string{"served", h.coreID(), h.term + "\x1f" + strings.Join(h.layers, "\x1f"), e.last.rname, e.last.path,
		strings.Join(e.recovered, "\x1f"), esc, pat, itoa(body)}
	return append(out, e.last.params...)
}

func (e *grEnv) serve(h http.Handler, method, host, path, accept string, raises []string) []string {
	e.raises = map[string]string{}
	for i := 0; i+2 < len(raises); i += 3 {
		if _, dup := e.raises[raises[i]+"|"+raises[i+1]]; !dup {
			e.raises[raises[i]+"|"+raises[i+1]] = raises[i+2]
		}
	}
	e.recovered = nil
	e.last = seen{}
	req := &http.Request{Method: method, URL: &url.URL{Path: path}, Header: http.Header{}, Host: host, Proto: "HTTP/1.1", ProtoMajor: 1, ProtoMinor: 1}
	if accept != "" {
		req.Header.Set("Accept", accept)
	}
	w := httptest.NewRecorder()
	var val any
	cls := ""
	func() {
		defer func() {
			if v := recover(); v != nil {
				val = v
				cls = classify(v)
				if cls == "" {
					cls = "other"
				}
			}
		}()
		h.ServeHTTP(w, req)
	}()
	return e.observe(cls, val, w.Body.Len())
}

func (e *grEnv) exec(o []string) []string {
	switch o[0] {
	case "gcfg":
		e.newGroup(o[1] == "1")
		e.solo = map[string]*mux.Router[*H]{}
		return []string{"ok"}
	case "gnew":
		return withTwin(outcome(guard(func() {
			m, _ := parseMatcher(o[4:])
			var opts []mux.Option
			if o[2] == "1" {
				opts = append(opts, mux.WithTrace(&H{term: "TR", core: "TR"}))
			}
			switch o[3] {
			case "1":
				opts = append(opts, e.recoverOpt())
			case "0":
				opts = append(opts, mux.WithRecovery(nil))
			}
			e.g.New(o[1], m, opts...)
		})), e.twinProbe())
	case "rnew":
		var opts []mux.Option
		if o[2] == "1" {
			opts = append(opts, mux.WithTrace(&H{term: "TR", core: "TR"}))
		}
		if o[3] == "1" {
			opts = append(opts, e.recoverOpt())
		}
		e.solo[o[1]] = mux.NewRouter[*H](o[1], e.call, &H{term: "NF", core: "NF"},
			func(n types.Node) *H { return &H{term: "NA", core: "NA", node: n} },
			func(n types.Node) *H { return &H{term: "OP", core: "OP", node: n} }, opts...)
		return []string{"ok"}
	case "gremove":
		return outcome(guard(func() {
			if r := e.g.Router(o[1]); r != nil { // the removed router object stays usable (and can be added again)
				e.solo[o[1]] = r
			}
			e.g.Remove(o[1])
		}))
	case "gadd": // Group.Add(matcher, r) with an existing router object: one made by rnew or one removed earlier
		r, ok := e.solo[o[1]]
		if !ok {
			return []string{"norouter"}
		}
		out := outcome(guard(func() {
			m, _ := parseMatcher(o[2:])
			e.g.Add(m, r)
		}))
		if out[0] == "ok" {
			delete(e.solo, o[1])
		}
		return out
	case "guse":
		ids, _ := takeList(o[1:])
		e.g.Use(e.mws(ids)...)
		return []string{"ok"}
	case "ruse":
		ids, _ := takeList(o[2:])
		if r := e.router(o[1]); r != nil {
			r.Use(e.mws(ids)...)
		}
		return []string{"ok"}
	case "ghandle":
		mwIDs, rest := takeList(o[4:])
		methods, _ := takeList(rest)
		r := e.router(o[1])
		if e.lookupFault {
			e.lookupFault = false
			return []string{"panic", "runtime"}
		}
		if r == nil {
			return []string{"norouter"}
		}
		return outcome(guard(func() { r.Handle(o[2], &H{term: "U(" + o[3] + ")", core: "U", id: o[3]}, e.mws(mwIDs), methods...) }))
	case "poolprobe":
		a, b := types.NewContext(), types.NewContext()
		same := a == b
		a.Destroy()
		if !same {
			b.Destroy()
		}
		return []string{b2s(!same)}
	case "greq":
		_, rest := takeList(o[6:])
		rs, _ := takeList(rest)
		return e.serve(e.g, o[1], o[2], o[3], o[4], rs)
	case "rreq":
		rs, _ := takeList(o[4:])
		r, ok := e.solo[o[1]]
		if !ok {
			return []string{"norouter"}
		}
		return e.serve(r, o[2], "", o[3], "", rs)
	}
	return []string{"unknown-op"}
}

// outcome of a group mutation plus the twin group's health
func withTwin(out []string, twinOK bool) []string {
	if !twinOK {
		return append(out, "twin-group-lost-its-recovery-option")
	}
	return out
}

func execGR(ops [][]string, w *W) {
	e := &grEnv{solo: map[string]*mux.Router[*H]{}}
	e.newGroup(false)
	for _, o := range ops {
		w.O(o...)
		w.R(e.exec(o)...)
	}
}

// ---- generators
func parsedAccept(accept string) []string {
	_, ps, err := mime.ParseMediaType(accept)
	var kv []string
	keys := make([]string, 0, len(ps))
	for k := range ps {
		keys = append(keys, k)
	}
	sort.Strings(keys)
	for _, k := range keys {
		kv = append(kv, k, ps[k])
	}
	return append([]string{b2s(err == nil && accept != "")}, list(kv...)...)
}

var grHosts = []string{"a.com", "b.com", "api.example.com", "{sub}.example.com"}

func genMatcher(r *rand.Rand, depth int) []string {
	if depth == 0 && r.Intn(9) == 0 {
		// And(pv ver, Or(And(hv ver, <rejects>), any)): an inner member overwrites a parameter an outer member
		// captured, then the inner And rejects - the outer capture must be back when the Or falls through
		rej := pick(r, [][]string{{"hosts", "1", "never.example"}, {"pv", "", "1", "zz"}})
		inner := append([]string{"and", "2", "hv", "ver", "", "2", "1", "2"}, rej...)
		or := append(append([]string{"or", "2"}, inner...), "any")
		return append([]string{"and", "2", "pv", "ver", "2", "v1", "v2"}, or...)
	}
	if depth == 0 && r.Intn(12) == 0 {
		// And(pv sub, Or(Hosts({sub}.never.example), any)): a Hosts member with a domain parameter named like the
		// parameter an earlier member captured rejects (F28, repaired)
		return []string{"and", "2", "pv", "sub", "2", "v1", "v2", "or", "2", "hosts", "1", "{sub}.never.example", "any"}
	}
	switch x := r.Intn(10); {
	case x < 2:
		return []string{"any"}
	case x < 3:
		n := 1 + r.Intn(2)
		var ds []string
		for i := 0; i < n; i++ {
			d := pick(r, grHosts)
			dup := false
			for _, y := range ds {
				dup = dup || y == d
			}
			if !dup {
				ds = append(ds, d)
			}
		}
		return append([]string{"hosts"}, list(ds...)...)
	case x < 5:
		return append([]string{"pv", pick(r, []string{"", "ver"})}, list(pick(r, [][]string{{"v1"}, {"v2", "v1"}, {"v11", "v1/v1"}, {"/v1/"}})...)...)
	case x < 6:
		return append([]string{"hv", pick(r, []string{"", "hver"}), ""}, list(pick(r, [][]string{{"1"}, {"2", "1"}})...)...)
	default:
		if depth >= 2 {
			return []string{"any"}
		}
		n := 2 + r.Intn(2)
		out := []string{pick(r, []string{"and", "and", "or"}), itoa(n)}
		for i := 0; i < n; i++ {
			out = append(out, genMatcher(r, depth+1)...)
		}
		return out
	}
}

var panicVals = []string{"s:boom", "e:bad", "i:42", "t:x", "s:", "s:second", "a:abort"}

func genGR(focus string) func(r *rand.Rand, w *W) [][]string {
	return func(r *rand.Rand, w *W) [][]string {
		grec := r.Intn(2) == 0
		ops := [][]string{{"gcfg", b2s(grec)}}
		var names, allMws []string
		mwN := 0
		earlyUse := r.Intn(4) == 0
		newMws := func(max int) []string {
			var ids []string
			for i := r.Intn(max + 1); i > 0; i-- {
				mwN++
				ids = append(ids, "m"+itoa(mwN))
				allMws = append(allMws, "m"+itoa(mwN))
			}
			return ids
		}
		solo := []string{}
		if focus == "C16" && r.Intn(2) == 0 {
			ops = append(ops, []string{"rnew", "solo", b2s(r.Intn(3) == 0), b2s(r.Intn(2) == 0)})
			solo = append(solo, "solo")
		}
		if earlyUse { // Use on a group that has no routers yet
			mwN++
			allMws = append(allMws, "m"+itoa(mwN))
			ops = append(ops, append([]string{"guse"}, list("m"+itoa(mwN))...))
		}
		nr := 1 + r.Intn(4)
		for i := 0; i < nr; i++ {
			name := "r" + itoa(i)
			if r.Intn(12) == 0 && len(names) > 0 {
				name = pick(r, names)
			}
			rec := pick(r, []string{"-", "-", "1", "0"})
			ops = append(ops, append([]string{"gnew", name, b2s(r.Intn(5) == 0), rec}, genMatcher(r, 0)...))
			names = append(names, name)
			if r.Intn(3) == 0 {
				ops = append(ops, append([]string{"guse"}, list(newMws(2)...)...))
			}
		}
		hid := 0
		if r.Intn(3) == 0 { // routers sharing the group's middleware slice: Use on several routers, then register
			for _, n := range names {
				ops = append(ops, append([]string{"ruse", n}, list(newMws(1)...)...))
			}
		}
		for _, n := range append(append([]string{}, names...), solo...) {
			for k := 1 + r.Intn(2); k > 0; k-- {
				hid++
				p := pick(r, []string{"/x", "/x", "/users/{id}", "/v1/x", "/"})
				ops = append(ops, append([]string{"ghandle", n, p, "h" + itoa(hid)}, append(list(newMws(2)...), list("GET", "POST")...)...))
			}
			if r.Intn(3) == 0 {
				ops = append(ops, append([]string{"ruse", n}, list(newMws(1)...)...))
			}
		}
		if r.Intn(3) == 0 {
			ops = append(ops, append([]string{"guse"}, list(newMws(2)...)...))
		}
		if len(names) >= 3 && r.Intn(4) == 0 {
			// a router that is not the last is removed, then its successor is addressed by name
			i := r.Intn(len(names) - 1)
			ops = append(ops, []string{"gremove", names[i]})
			if r.Intn(2) == 0 {
				ops = append(ops, []string{"gremove", names[i+1]})
			} else {
				hid++
				ops = append(ops, append([]string{"ghandle", names[i+1], "/succ", "h" + itoa(hid)}, append(list(), list("GET")...)...))
			}
		}
		if r.Intn(4) == 0 && len(names) > 0 {
			gone := pick(r, names)
			ops = append(ops, []string{"gremove", gone})
			if r.Intn(2) == 0 { // the same router object comes back, usually without a matcher
				m := []string{"any"}
				if r.Intn(3) == 0 {
					m = genMatcher(r, 0)
				}
				ops = append(ops, append([]string{"gadd", gone}, m...))
			}
		}
		if len(solo) > 0 && r.Intn(3) == 0 { // a router created outside joins the group
			m := []string{"any"}
			if r.Intn(2) == 0 {
				m = genMatcher(r, 0)
			}
			ops = append(ops, append([]string{"gadd", "solo"}, m...))
			if r.Intn(2) == 0 {
				solo = nil // no longer addressed as a router of its own
			}
		}
		layers := append([]string{"NF", "NA", "OP", "TR", "GNF", "GNF"}, allMws...)
		layers = append(layers, allMws...)
		for k := 1; k <= hid; k++ {
			layers = append(layers, "U:h"+itoa(k), "U:h"+itoa(k))
		}
		genRaises := func() []string {
			var rs []string
			if focus != "C16" && r.Intn(4) != 0 {
				return nil
			}
			for k := r.Intn(3); k > 0; k-- {
				l := pick(r, layers)
				ph := "core"
				if strings.HasPrefix(l, "m") {
					ph = pick(r, []string{"before", "after"})
				}
				rs = append(rs, l, ph, pick(r, panicVals))
			}
			return rs
		}
		for i := 0; i < 14; i++ {
			host := pick(r, []string{"a.com", "a.com", "b.com", "c.com", "api.example.com", "x.example.com", "A.COM:80", ""})
			path := pick(r, []string{"/x", "/x", "/v1/x", "/v1/x", "/v2/x", "/v11/x", "/v1", "/users/5", "/v1/users/7", "/nope", "/", "/v1/", "/v1/v1/x"})
			accept := pick(r, []string{"", "application/json; version=1", "application/json; version=1", "application/json; version=2", "text/html", "application/json;version=3", ";"})
			method := pick(r, []string{"GET", "GET", "GET", "POST", "POST", "OPTIONS", "HEAD", "TRACE", "PUT"})
			op := append([]string{"greq", method, host, path, accept}, parsedAccept(accept)...)
			op = append(op, list(genRaises()...)...)
			ops = append(ops, op)
			if r.Intn(3) == 0 {
				ops = append(ops, []string{"poolprobe"})
			}
			if len(solo) > 0 && r.Intn(3) == 0 {
				ops = append(ops, append([]string{"rreq", "solo", method, path}, list(genRaises()...)...))
			}
		}
		return ops
	}
}

func init() {
	suites["C13"] = Suite{Gen: genGR("C13"), Exec: execGR}
	suites["C16"] = Suite{Gen: genGR("C16"), Exec: execGR}
}
