module verif/harness

go 1.23.0

require github.com/issue9/mux/v9 v9.0.0

require (
	github.com/issue9/assert/v4 v4.3.1 // indirect
	github.com/issue9/errwrap v0.3.2 // indirect
	github.com/issue9/source v0.12.5 // indirect
	golang.org/x/mod v0.24.0 // indirect
)

replace github.com/issue9/mux/v9 => /repo
