module verif/harness

go 1.23.0

require github.com/issue9/mux/v9 v9.0.0

replace github.com/issue9/mux/v9 => /repo
