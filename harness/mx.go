package main

import (
	"math/rand"
	"mime"
	"net/http"
	"net/url"
	"sort"
	"strings"

	mux "github.com/issue9/mux/v9"
	"github.com/issue9/mux/v9/types"
)

func ctxParams(ctx *types.Context) []string {
	var kv [][2]string
	ctx.Range(func(k, v string) { kv = append(kv, [2]string{k, v}) })
	sort.Slice(kv, func(i, j int) bool { return kv[i][0] < kv[j][0] })
	var out []string
	for _, p := range kv {
		out = append(out, p[0], p[1])
	}
	return out
}

type mxEnv struct {
	hs *mux.Hosts
	// matchers are kept for the whole case: one matcher object answers many requests
	matchers map[string]mux.Matcher
}

func (e *mxEnv) matcher(key string, mk func() mux.Matcher) mux.Matcher {
	if e.matchers == nil {
		e.matchers = map[string]mux.Matcher{}
	}
	if m, ok := e.matchers[key]; ok {
		return m
	}
	m := mk()
	e.matchers[key] = m
	return m
}

func (e *mxEnv) exec(o []string) []string {
	switch o[0] {
	case "pv":
		vs, rest := takeList(o[2:])
		path := rest[0]
		init, _ := takeList(rest[1:])
		var out []string
		cls := guard(func() {
			m := e.matcher("pv\x00"+o[1]+"\x00"+strings.Join(vs, "\x00"), func() mux.Matcher { return mux.NewPathVersion(o[1], append([]string{}, vs...)...) })
			ctx := types.NewContext()
			defer ctx.Destroy()
			for i := 0; i+1 < len(init); i += 2 {
				ctx.Set(init[i], init[i+1])
			}
			req := &http.Request{Method: "GET", URL: &url.URL{Path: path}, Header: http.Header{}}
			ok := m.Match(req, ctx)
			out = append([]string{b2s(ok), req.URL.Path}, ctxParams(ctx)...)
		})
		if cls != "" {
			return []string{"panic", cls}
		}
		return out
	case "hv":
		vs, rest := takeList(o[3:])
		accept := rest[0]
		_, rest2 := takeList(rest[2:])
		init, _ := takeList(rest2)
		var out []string
		cls := guard(func() {
			m := e.matcher("hv\x00"+o[1]+"\x00"+o[2]+"\x00"+strings.Join(vs, "\x00"), func() mux.Matcher { return mux.NewHeaderVersion(o[1], o[2], func(error) {}, vs...) })
			ctx := types.NewContext()
			defer ctx.Destroy()
			for i := 0; i+1 < len(init); i += 2 {
				ctx.Set(init[i], init[i+1])
			}
			req := &http.Request{Method: "GET", URL: &url.URL{Path: "/"}, Header: http.Header{}}
			if accept != "" {
				req.Header.Set("Accept", accept)
			}
			ok := m.Match(req, ctx)
			out = append([]string{b2s(ok)}, ctxParams(ctx)...)
		})
		if cls != "" {
			return []string{"panic", cls}
		}
		return out
	case "hadd":
		return outcome(guard(func() { e.hs.Add(o[1]) }))
	case "hdel":
		return outcome(guard(func() { e.hs.Delete(o[1]) }))
	case "hicpt":
		return outcome(guard(func() {
			switch o[2] {
			case "digit":
				e.hs.RegisterInterceptor(func(s string) bool {
					for _, c := range []byte(s) {
						if c < '0' || c > '9' {
							return false
						}
					}
					return len(s) > 0
				}, o[1])
			case "word":
				e.hs.RegisterInterceptor(func(s string) bool {
					for _, c := range []byte(s) {
						if !(c >= '0' && c <= '9' || c >= 'a' && c <= 'z' || c >= 'A' && c <= 'Z') {
							return false
						}
					}
					return len(s) > 0
				}, o[1])
			case "any":
				e.hs.RegisterInterceptor(func(s string) bool { return len(s) > 0 }, o[1])
			default:
				e.hs.RegisterInterceptor(icptFunc(o[2]), o[1])
			}
		}))
	case "hmatch":
		init, _ := takeList(o[2:])
		var out []string
		cls := guard(func() {
			ctx := types.NewContext()
			defer ctx.Destroy()
			for i := 0; i+1 < len(init); i += 2 {
				ctx.Set(init[i], init[i+1])
			}
			req := &http.Request{Method: "GET", URL: &url.URL{Path: "/"}, Header: http.Header{}, Host: o[1]}
			ok := e.hs.Match(req, ctx)
			out = append([]string{b2s(ok)}, ctxParams(ctx)...)
		})
		if cls != "" {
			return []string{"panic", cls}
		}
		return out
	case "hdump":
		return mux.VerifDumpHosts(e.hs)
	}
	return []string{"unknown-op"}
}

func execMX(ops [][]string, w *W) {
	e := &mxEnv{hs: mux.NewHosts(false)}
	for _, o := range ops {
		w.O(o...)
		w.R(e.exec(o)...)
	}
}

// ---- generators

var verPool = []string{"v1", "v11", "/v1", "v1/", "/v2/", "v1/x", "1", "v", "//v3", "v1//", "api/v1", "\xff", "V1", "v 1", "/"}

func hvOp(name, key string, vs []string, accept string, init []string) []string {
	_, ps, err := mime.ParseMediaType(accept)
	var kv []string
	keys := make([]string, 0, len(ps))
	for kk := range ps {
		keys = append(keys, kk)
	}
	sort.Strings(keys)
	for _, kk := range keys {
		kv = append(kv, kk, ps[kk])
	}
	op := append([]string{"hv", name, key}, list(vs...)...)
	op = append(op, accept, b2s(err == nil))
	op = append(op, list(kv...)...)
	op = append(op, list(init...)...)
	return op
}

func genC15(r *rand.Rand, w *W) [][]string {
	var ops [][]string
	// two or three matcher configurations per case, each used for several requests (the same object every time)
	type spec struct {
		name string
		vs   []string
	}
	var specs []spec
	for k := 2 + r.Intn(2); k > 0; k-- {
		sp := spec{name: pick(r, []string{"", "ver", "version", "id"})}
		for k := r.Intn(4); k >= 0; k-- {
			sp.vs = append(sp.vs, pick(r, verPool))
		}
		if r.Intn(4) == 0 {
			sp.vs = append(sp.vs, pick(r, []string{"beta", "Beta", "rc1"}))
		}
		if r.Intn(25) == 0 {
			sp.vs = append(sp.vs, "")
		}
		specs = append(specs, sp)
	}
	for i := 0; i < 12; i++ {
		sp := pick(r, specs)
		name, vs := sp.name, sp.vs
		var init []string
		if r.Intn(2) == 0 {
			init = append(init, pick(r, []string{"ver", "x", "id"}), pick(r, []string{"old", "", "/v0"}))
		}
		if r.Intn(2) == 0 {
			// path version
			var path string
			v := strings.Trim(pick(r, vs), "/")
			switch r.Intn(8) {
			case 0:
				path = "/" + v
			case 1:
				path = "/" + v + "/"
			case 2:
				path = "/" + v + "/x/" + v + "/y"
			case 3:
				path = "/" + v + "1/x"
			case 4:
				path = v + "/x"
			case 5:
				path = pick(r, []string{"", "/", "*", "//", "/x", "\xff\x00/"})
			case 6:
				path = "/" + pick(r, verPool) + "/path.html"
			default:
				path = "/" + v + "/path.html"
			}
			if r.Intn(10) == 0 {
				path = mutate(r, path)
			}
			ops = append(ops, append(append([]string{"pv", name}, list(vs...)...), append([]string{path}, list(init...)...)...))
			w.Count("pv")
		} else {
			key := pick(r, []string{"", "version", "v", "Version"})
			k := key
			if k == "" {
				k = "version"
			}
			v := pick(r, vs)
			var accept string
			switch r.Intn(10) {
			case 0:
				accept = ""
			case 1:
				accept = "application/json"
			case 2:
				accept = "application/json; " + k + "=" + v
			case 3:
				accept = "application/json; charset=utf-8; " + k + "=\"" + v + "\""
			case 4:
				accept = pick(r, []string{"application/json; " + strings.ToUpper(k) + "=" + v, "application/json; " + k + "=" + strings.ToUpper(v),
					"Application/JSON; " + k + "=" + strings.ToLower(v), "APPLICATION/JSON; " + k + "=" + v})
			case 5:
				accept = "text/html, application/json; " + k + "=" + v
			case 6:
				accept = pick(r, []string{";", "a/b;;", "application/json; version", "=", "a/b; version=1; version=2", "\xff/\x00; version=v1"})
			case 7:
				accept = "application/json;" + k + "=" + pick(r, verPool)
			default:
				accept = "application/vnd.api+json; " + k + "=" + v
			}
			ops = append(ops, hvOp(name, key, vs, accept, init))
			w.Count("hv")
			if r.Intn(4) == 0 {
				// the same matcher asked again with a header that differs only in letter case (media type and
				// parameter names are case-insensitive, the version is not), in either order
				flip := func(s string) string {
					b := []byte(s)
					for i, c := range b {
						if c >= 'a' && c <= 'z' {
							b[i] = c - 32
						} else if c >= 'A' && c <= 'Z' {
							b[i] = c + 32
						}
					}
					return string(b)
				}
				a1 := "application/json; " + k + "=" + v
				a2 := pick(r, []string{"application/json; " + k + "=" + flip(v), flip(a1), "Application/Json; " + k + "=" + v})
				if r.Intn(2) == 0 {
					a1, a2 = a2, a1
				}
				ops = append(ops, hvOp(name, key, vs, a1, nil), hvOp(name, key, vs, a2, nil), hvOp(name, key, vs, a1, nil))
				w.Count("hv-case-variants")
			}
		}
	}
	return ops
}

var domLits = []string{"a.example.com", "b.example.com", "c.example.com", "d.example.com", "e.example.com", "f.example.com",
	"api.example.com", "example.com", "www.example.com", "localhost", "::1", "example.org", "ab.example.com", "api.example.org"}
var domPars = []string{"{sub}.example.com", "{sub:[a-z]+}.example.com", "{sub:digit}.example.com", "{-x}.cdn.example.com",
	"{a}.{b}.example.org", "api.{tld}", "{sub:\\d+}.example.com", "{sub}.example.{tld:[a-z]+}", "s{n:digit}.example.com", "{all}",
	"{Sub}.Example.NET", "{Name}.cdn.example.net"}

func randCase(r *rand.Rand, s string) string {
	b := []byte(s)
	for i, c := range b {
		if c >= 'a' && c <= 'z' && r.Intn(3) == 0 && !strings.Contains(s[:i+1], "{") {
			b[i] = c - 32
		}
	}
	return string(b)
}

func genC14(r *rand.Rand, w *W) [][]string {
	var ops [][]string
	var pool []string
	icDone := false
	if r.Intn(2) == 0 {
		ops = append(ops, []string{"hicpt", "digit", "digit"})
		icDone = true
	}
	fan := r.Intn(2) == 0
	if fan {
		for _, d := range domLits[:6+r.Intn(2)] {
			ops = append(ops, []string{"hadd", d})
			pool = append(pool, d)
		}
		w.Count("literal-fanout")
	}
	if fan && icDone {
		// kinds that compete at one position where the sort adjustments (leaf, end point) could tie them: an
		// interceptor domain that ends the host and has no children, added AFTER two regexp domains that share
		// an inner node; the interceptor must still be tried first.  No random draw, no pool entry.
		ops = append(ops, []string{"hicpt", "anyz", "any"},
			[]string{"hadd", "api.{ver:v\\d+}.kind.example.com"}, []string{"hadd", "api.{ver:v\\d+}.kind.example.org"},
			[]string{"hadd", "api.{rest:anyz}"}, []string{"hdump"},
			[]string{"hmatch", "api.v2.kind.example.com"}, []string{"hmatch", "API.v2.kind.Example.org:443"}, []string{"hmatch", "api.x"})
		w.Count("shape-interceptor-after-regexp-siblings")
	}
	probe := func(simple bool) {
		if len(pool) == 0 {
			return
		}
		p := pick(r, pool)
		host, kv := witness(r, p)
		orig := host
		switch r.Intn(6) {
		case 0:
			host = randCase(r, host)
		case 1:
			host += ":" + pick(r, []string{"80", "8080", "", "0"})
		case 2:
			host = "[" + host + "]" + pick(r, []string{"", ":443"})
		}
		if r.Intn(12) == 0 {
			// hosts whose lower-case form has a different length in UTF-8 (Kelvin sign, dotted capital I), with ports
			host = pick(r, []string{"\u212a\u212a", "\u212aexample.com", "\u0130.example.com", "a\u212ab", "\u212a"}) +
				pick(r, []string{":80", ":", ":8", "", ":8080"})
			simple = false
		}
		var init []string
		if r.Intn(3) == 0 {
			init = []string{"zz", "keep"}
		}
		if r.Intn(10) == 0 { // a parameter already in the context that is named like a domain parameter (F28, repaired)
			init = append(init, pick(r, []string{"sub", "tld", "n", "a", "all"}), "before")
		}
		op := append([]string{"hmatch", host}, list(init...)...)
		if simple {
			op = append(append(op, "w", strings.ToLower(p)), list(kv...)...)
		}
		_ = orig
		ops = append(ops, op)
	}
	if r.Intn(4) == 0 {
		// a rule name that is a regexp until an interceptor of that name is registered: the same domain text is
		// added, deleted, and added again after the registration
		rule := pick(r, []string{"wrd", "abc", "x1"})
		d := "{sub:" + rule + "}." + pick(r, []string{"late.example.net", "example.io"})
		tail := d[strings.Index(d, "}")+1:]
		ops = append(ops, []string{"hadd", d}, []string{"hmatch", rule + tail, "0"}, []string{"hmatch", "zz9" + tail, "0"})
		if r.Intn(3) != 0 {
			ops = append(ops, []string{"hdel", d})
		}
		ops = append(ops, []string{"hicpt", rule, pick(r, []string{"word", "any", "digit"})})
		ops = append(ops, []string{"hadd", d}, []string{"hdump"}, []string{"hmatch", rule + tail, "0"}, []string{"hmatch", "zz9" + tail, "0"}, []string{"hmatch", "77" + tail, "0"})
		pool = append(pool, d)
		w.Count("shape-rule-becomes-interceptor")
	}
	n := 3 + r.Intn(10)
	for i := 0; i < n; i++ {
		switch x := r.Intn(10); {
		case x < 5:
			var d string
			if r.Intn(2) == 0 {
				d = pick(r, domLits)
			} else {
				d = pick(r, domPars)
				if strings.Contains(d, "digit") && !icDone {
					d = "{sub}.example.com"
				}
			}
			if r.Intn(4) == 0 {
				d = randCase(r, d)
			}
			ops = append(ops, []string{"hadd", d})
			pool = append(pool, d)
		case x < 8 && len(pool) > 0:
			d := pick(r, pool)
			if r.Intn(2) == 0 {
				d = randCase(r, d)
			}
			if r.Intn(8) == 0 {
				d = pick(r, domLits)
			}
			ops = append(ops, []string{"hdel", d})
			w.Count("hdel")
		default:
		}
		ops = append(ops, []string{"hdump"})
		probe(true)
		probe(true)
	}
	for i := 0; i < 8; i++ {
		switch r.Intn(4) {
		case 0:
			ops = append(ops, append([]string{"hmatch", pick(r, []string{"", "*", ":", ":80", "a.example.com:80a", "[::1]:80", "[::1", "::1]",
				"xn--bcher-kva.example.com", "EXAMPLE.com.", "a.example.com:", "é.example.com", "\xff.example.com", "a..example.com", "[a.example.com]",
				"[", "[:", "[:8080", "]", "[]", "[]:80", "[::1]:80a", "[::1]x", "[::1]:http", ":::", "[[::1]]"})}, list()...))
		default:
			probe(false)
		}
	}
	return ops
}

func init() {
	suites["C15"] = Suite{Gen: genC15, Exec: execMX}
	suites["C14"] = Suite{Gen: genC14, Exec: execMX}
}
